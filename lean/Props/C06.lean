/-
  Props.C06 — Search never modifies the document it is given (DESIGN.md §7, C06).

  Three layers:
  (1) the regenerated write-site facts: no instruction reachable from the
      public entry points writes to a parameter, a receiver or package state
      (`C06_generated_writes_ok`, re-derived from /repo's SSA on every run);
  (2) the abstract shared-memory machine (Spec/Threads.lean): when every write
      of a call goes to a location the call owns, no schedule of any number of
      calls changes a shared location — in particular the document
      (`C06_frame`), on success and on error paths alike (the machine does not
      distinguish them);
  (3) the API model, where documents are values: every search operation, failed
      or not, leaves every stored document as it was (`C06_model_documents_unchanged`);
      the correspondence check compares the implementation's document before
      and after each call (`!docmut` oracle) on the same operations.
-/
import Props.Tables
import Props.Writes
import Proofs.Threads
import Jmes.Api
namespace Jmes.Props
open Jmes Jmes.Api

theorem C06_generated_table_ok : TableOK Generated.table = true := generated_table_ok
theorem C06_generated_sigs_ok : SigsOK Generated.functionTable Spec.functionTable = true := generated_sigs_ok
theorem C06_generated_lex_ok : LexTablesOK Model.lexTables Spec.lexTables = true := generated_lex_ok

/-- (1) every write site of /repo is private to the call. -/
theorem C06_generated_writes_ok : WritesOK GeneratedWrites.writeSites = true := generated_writes_ok

/-- (2) the frame property: shared locations (the document among them) hold
    after any schedule of any calls what they held before. -/
theorem C06_frame {T L V PC : Type} [DecidableEq T] [DecidableEq L] (S : Threads.Sys T L V PC)
    (hw : Threads.WritesPrivate S) (c : Threads.Conf T L V PC) (sched : List T) (l : L) (hl : S.owner l = none) :
    (S.run c sched).heap l = c.heap l :=
  Threads.shared_unchanged S hw c sched l hl

variable {N : Type} [NumOps N]

/-- (3) in the API model a search — compiled or one-shot, successful, failing
    or on a missing handle — changes no document and no compiled expression. -/
theorem C06_model_documents_unchanged (cfg : Config) (s : State N) (op : Op N)
    (hop : (∃ h d, op = .searchC h d) ∨ (∃ e d, op = .search e d)) :
    (step cfg s op).1.docs = s.docs ∧ (step cfg s op).1.handles = s.handles := by
  rcases hop with ⟨h, d, rfl⟩ | ⟨e, d, rfl⟩
  · simp only [step]; split <;> exact ⟨rfl, rfl⟩
  · simp only [step]; split <;> exact ⟨rfl, rfl⟩

/-- … and so does any sequence of searches. -/
theorem C06_model_documents_unchanged_run (cfg : Config) (s : State N) (ops : List (Op N))
    (hops : ∀ op ∈ ops, (∃ h d, op = .searchC h d) ∨ (∃ e d, op = .search e d)) :
    (run cfg s ops).1.docs = s.docs := by
  induction ops generalizing s with
  | nil => rfl
  | cons op ops ih =>
    simp only [run]
    rw [ih _ (fun o ho => hops o (by simp [ho]))]
    exact (C06_model_documents_unchanged cfg s op (hops op (by simp))).1

/-- The machine's hypothesis is satisfiable by a system that does write:
    one call that increments a private counter next to a shared cell. -/
example : ∃ S : Threads.Sys Unit Bool Nat Unit, Threads.WritesPrivate S ∧
    (S.step () (fun _ => 0) ()).2 ≠ [] ∧ S.owner false = none :=
  ⟨⟨fun l => if l then some () else none, fun _ h _ => ((), [(true, h true + 1)])⟩,
   by intro t h pc lv hlv; simp at hlv; subst hlv; rfl, by simp, rfl⟩

end Jmes.Props
