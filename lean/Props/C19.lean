/-
  Props.C19 — the theorems that decide property C19 (see DESIGN.md §7).
-/
import Props.Tables
namespace Jmes.Props
open Jmes

theorem C19_generated_table_ok : TableOK Generated.table = true := generated_table_ok
theorem C19_generated_sigs_ok : SigsOK Generated.functionTable Spec.functionTable = true := generated_sigs_ok
theorem C19_generated_lex_ok : LexTablesOK Model.lexTables Spec.lexTables = true := generated_lex_ok

end Jmes.Props
