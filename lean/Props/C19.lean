/-
  Props.C19 — jpgo prints exactly the library result and signals failure by
  exit status (DESIGN.md §7, C19; partial: process start-up, `flag`, file I/O
  and encoding/json are the OS and the standard library — modelled in
  Jmes/Cli.lean and Jmes/Json.lean, validated on the built binary).
-/
import Props.Tables
import Jmes.Cli
namespace Jmes.Props
open Jmes Jmes.Cli

theorem C19_generated_table_ok : TableOK Generated.table = true := generated_table_ok
theorem C19_generated_sigs_ok : SigsOK Generated.functionTable Spec.functionTable = true := generated_sigs_ok
theorem C19_generated_lex_ok : LexTablesOK Model.lexTables Spec.lexTables = true := generated_lex_ok

variable {N : Type} [NumOps N]

/-- Success: a valid expression, readable valid JSON input (file or standard
    input), a successful search: standard output is the indented JSON of
    exactly the library's value followed by a newline, and the status is 0. -/
theorem C19_success (cfg : Api.Config) (expr : Bytes) (input : Input) (bytes : Bytes) (ast : Node N) (doc result : Val N)
    (hc : (Api.compile cfg expr : Res (Node N)) = .ok ast) (hi : input.data = some bytes)
    (hd : (Json.decode bytes : Option (Val N)) = some doc) (hs : Api.search cfg expr doc = .ok result)
    (hf : result.finite = true) :
    run (N := N) cfg [expr] input = ⟨Json.encodeIndent 0 result ++ [0x0A], 0⟩ := by
  simp only [run, hc, hi, hd, hs, hf, if_true]

/-- Every output with a non-empty standard output is a success: status 0,
    and the text is the serialisation of the value `Search` returned for the
    given expression on the decoded input. -/
theorem C19_output_is_the_library_result (cfg : Api.Config) (args : List Bytes) (input : Input)
    (hout : (run (N := N) cfg args input).stdout ≠ []) :
    (run (N := N) cfg args input).exit = 0 ∧
    ∃ expr bytes doc result, args = [expr] ∧ input.data = some bytes ∧
      (Json.decode bytes : Option (Val N)) = some doc ∧ Api.search cfg expr doc = .ok result ∧
      (run (N := N) cfg args input).stdout = Json.encodeIndent 0 result ++ [0x0A] := by
  unfold run at hout ⊢
  match args with
  | [] => simp [fail] at hout
  | _ :: _ :: _ => simp [fail] at hout
  | [expr] =>
    simp only [] at hout ⊢
    cases hc : (Api.compile cfg expr : Res (Node N)) with
    | err e => simp [hc, fail] at hout
    | panic p => simp [hc] at hout
    | ok ast =>
      simp only [hc] at hout ⊢
      cases hi : input.data with
      | none => simp [hi, fail] at hout
      | some bytes =>
        simp only [hi] at hout ⊢
        cases hd : (Json.decode bytes : Option (Val N)) with
        | none => simp [hd, fail] at hout
        | some doc =>
          simp only [hd] at hout ⊢
          cases hs : Api.search cfg expr doc with
          | err e => simp [hs, fail] at hout
          | panic p => simp [hs] at hout
          | ok result =>
            simp only [hs] at hout ⊢
            by_cases hf : result.finite = true
            · simp only [hf, if_true]
              exact ⟨trivial, expr, bytes, doc, result, rfl, rfl, hd, hs, rfl⟩
            · simp [hf, fail] at hout

/-- Failure: an invalid expression, a wrong argument count, an unreadable
    file, invalid JSON input or an evaluation error prints nothing on standard
    output and exits with a non-zero status. -/
theorem C19_failure (cfg : Api.Config) (args : List Bytes) (input : Input)
    (h : (∀ expr, args ≠ [expr]) ∨
         (∃ expr, args = [expr] ∧ (∀ ast, (Api.compile cfg expr : Res (Node N)) ≠ .ok ast)) ∨
         input.data = none ∨
         (∃ bytes, input.data = some bytes ∧ (Json.decode bytes : Option (Val N)) = none) ∨
         (∃ expr bytes doc, args = [expr] ∧ input.data = some bytes ∧
            (Json.decode bytes : Option (Val N)) = some doc ∧ ∀ r, Api.search cfg expr doc ≠ .ok r)) :
    (run (N := N) cfg args input).stdout = [] ∧ (run (N := N) cfg args input).exit ≠ 0 := by
  by_cases hout : (run (N := N) cfg args input).stdout = []
  · refine ⟨hout, ?_⟩
    intro hex
    -- exit 0 only happens together with a non-empty output (it ends in a newline)
    unfold run at hout hex
    match args with
    | [] => simp [fail] at hex
    | _ :: _ :: _ => simp [fail] at hex
    | [expr] =>
      simp only [] at hout hex
      cases hc : (Api.compile cfg expr : Res (Node N)) with
      | err e => simp [hc, fail] at hex
      | panic p => simp [hc] at hex
      | ok ast =>
        simp only [hc] at hout hex
        cases hi : input.data with
        | none => simp [hi, fail] at hex
        | some bytes =>
          simp only [hi] at hout hex
          cases hd : (Json.decode bytes : Option (Val N)) with
          | none => simp [hd, fail] at hex
          | some doc =>
            simp only [hd] at hout hex
            cases hs : Api.search cfg expr doc with
            | err e => simp [hs, fail] at hex
            | panic p => simp [hs] at hex
            | ok result =>
              simp only [hs] at hout hex
              by_cases hf : result.finite = true
              · simp [hf] at hout
              · simp [hf, fail] at hex
  · obtain ⟨_, expr, bytes, doc, result, ha, hi, hd, hs, _⟩ := C19_output_is_the_library_result cfg args input hout
    rcases h with h | ⟨e, he, hc⟩ | h | ⟨bs, hb, hn⟩ | ⟨e, bs, dc, he, hb, hdd, hr⟩
    · exact absurd ha (h expr)
    · exfalso
      rw [ha] at he; cases he
      unfold Api.search at hs
      cases hcc : (Api.compile cfg expr : Res (Node N)) with
      | ok ast => exact hc ast hcc
      | err er => simp [hcc] at hs
      | panic p => simp [hcc] at hs
    · rw [hi] at h; cases h
    · rw [hi] at hb; cases hb; rw [hd] at hn; cases hn
    · rw [ha] at he; cases he
      rw [hi] at hb; cases hb
      rw [hd] at hdd; cases hdd
      exact absurd hs (hr result)

end Jmes.Props
