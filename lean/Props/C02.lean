/-
  Props.C02 — projections apply element-wise, drop nulls, keep order and stop
  where specified (DESIGN.md §7, C02).  Evaluation side here; where a
  projection's right-hand side ends is a parser fact (C03).
-/
import Props.Tables
import Jmes.Interp
import Proofs.Printer
import Props.C03
namespace Jmes.Props
open Jmes Jmes.Interp

theorem C02_generated_table_ok : TableOK Generated.table = true := generated_table_ok
theorem C02_generated_sigs_ok : SigsOK Generated.functionTable Spec.functionTable = true := generated_sigs_ok
theorem C02_generated_lex_ok : LexTablesOK Model.lexTables Spec.lexTables = true := generated_lex_ok

variable {N : Type} [NumOps N]

omit [NumOps N] in
/-- The projection loop is `filterMap`: apply the right-hand side to each
    element in order and drop null results. -/
theorem projectLoop_eq (f : Val N → Res (Val N)) (g : Val N → Val N) (xs : List (Val N))
    (h : ∀ x ∈ xs, f x = .ok (g x)) : projectLoop f xs = .ok (dropNulls (xs.map g)) := by
  induction xs with
  | nil => rfl
  | cons x xs ih =>
    simp only [projectLoop, h x (by simp), ih (fun y hy => h y (by simp [hy])), List.map_cons]
    cases g x <;> simp [dropNulls]

omit [NumOps N] in
theorem dropNulls_spec (xs : List (Val N)) : dropNulls xs = xs.filter (fun v => match v with | .null => false | _ => true) := by
  induction xs with
  | nil => rfl
  | cons x xs ih => cases x <;> simp [dropNulls, ih]

/-- List projection `left[*] rhs`, and every projection built on it (slice,
    flatten): on an array, the right-hand side of each element in document
    order, nulls dropped. -/
theorem C02_list_projection (ft : List FnEntry) (l r : Node N) (d : Val N) (xs : List (Val N)) (g : Val N → Val N)
    (hl : eval ft l d = .ok (.arr xs)) (hr : ∀ x ∈ xs, eval ft r x = .ok (g x)) :
    eval ft (.proj l r) d = .ok (.arr (dropNulls (xs.map g))) := by
  simp only [eval, hl, projectLoop_eq (eval ft r) g xs hr]

/-- … and null when the left-hand side is not an array. -/
theorem C02_projection_of_non_array (ft : List FnEntry) (l r : Node N) (d v : Val N)
    (hl : eval ft l d = .ok v) (hv : ∀ xs, v ≠ .arr xs) : eval ft (.proj l r) d = .ok .null := by
  cases v with
  | arr xs => first | exact absurd rfl (hv xs) | simp only [eval, hl]
  | obj kvs => first | exact absurd rfl (hv kvs) | simp only [eval, hl]
  | _ => simp only [eval, hl]

/-- Object wildcard: the right-hand side of each member value, nulls dropped:
    exactly one entry per member whose projected value is non-null (the model
    lists members in key order; Go's order is unspecified). -/
theorem C02_object_wildcard (ft : List FnEntry) (l r : Node N) (d : Val N) (kvs : List (Bytes × Val N)) (g : Val N → Val N)
    (hl : eval ft l d = .ok (.obj kvs)) (hr : ∀ kv ∈ kvs, eval ft r kv.2 = .ok (g kv.2)) :
    eval ft (.valueProj l r) d = .ok (.arr (dropNulls ((kvs.map (·.2)).map g))) := by
  have : ∀ x ∈ kvs.map (·.2), eval ft r x = .ok (g x) := by
    intro x hx
    obtain ⟨kv, hkv, rfl⟩ := List.mem_map.mp hx
    exact hr kv hkv
  simp only [eval, hl, projectLoop_eq (eval ft r) g _ this]

theorem C02_object_wildcard_of_non_object (ft : List FnEntry) (l r : Node N) (d v : Val N)
    (hl : eval ft l d = .ok v) (hv : ∀ kvs, v ≠ .obj kvs) : eval ft (.valueProj l r) d = .ok .null := by
  cases v with
  | arr xs => first | exact absurd rfl (hv xs) | simp only [eval, hl]
  | obj kvs => first | exact absurd rfl (hv kvs) | simp only [eval, hl]
  | _ => simp only [eval, hl]

omit [NumOps N] in
/-- Flatten splices exactly one level: array elements are replaced by their
    elements, everything else is kept; nested arrays inside those are untouched. -/
theorem flattenOnce_spec (xs : List (Val N)) :
    flattenOnce xs = xs.flatMap (fun v => match v with | .arr ys => ys | v => [v]) := by
  induction xs with
  | nil => rfl
  | cons x xs ih => cases x <;> simp [flattenOnce, ih]

theorem C02_flatten (ft : List FnEntry) (e : Node N) (d : Val N) (xs : List (Val N)) (h : eval ft e d = .ok (.arr xs)) :
    eval ft (.flatten e) d = .ok (.arr (xs.flatMap (fun v => match v with | .arr ys => ys | v => [v]))) := by
  simp only [eval, h, flattenOnce_spec]

theorem C02_flatten_of_non_array (ft : List FnEntry) (e : Node N) (d v : Val N)
    (h : eval ft e d = .ok v) (hv : ∀ xs, v ≠ .arr xs) : eval ft (.flatten e) d = .ok .null := by
  cases v with
  | arr xs => exact absurd rfl (hv xs)
  | _ => simp only [eval, h]

omit [NumOps N] in
theorem filterLoop_eq (cond rhs : Val N → Res (Val N)) (cf rf : Val N → Val N) (xs : List (Val N))
    (hc : ∀ x ∈ xs, cond x = .ok (cf x)) (hr : ∀ x ∈ xs, rhs x = .ok (rf x)) :
    filterLoop cond rhs xs = .ok (dropNulls ((xs.filter (fun x => !(cf x).isFalse)).map rf)) := by
  induction xs with
  | nil => rfl
  | cons x xs ih =>
    have ih' := ih (fun y hy => hc y (by simp [hy])) (fun y hy => hr y (by simp [hy]))
    simp only [filterLoop, hc x (by simp), hr x (by simp), ih']
    by_cases hf : (cf x).isFalse
    · simp [hf]
    · simp only [hf, Bool.not_false, if_true, List.filter_cons, List.map_cons]
      cases hrx : rf x <;> simp [dropNulls]

/-- Filter projection: keeps exactly the elements whose condition is
    true-like, then applies the right-hand side and drops nulls. -/
theorem C02_filter_projection (ft : List FnEntry) (l r c : Node N) (d : Val N) (xs : List (Val N)) (cf rf : Val N → Val N)
    (hl : eval ft l d = .ok (.arr xs)) (hc : ∀ x ∈ xs, eval ft c x = .ok (cf x)) (hr : ∀ x ∈ xs, eval ft r x = .ok (rf x)) :
    eval ft (.filterProj l r c) d = .ok (.arr (dropNulls ((xs.filter (fun x => !(cf x).isFalse)).map rf))) := by
  have := filterLoop_eq (eval ft c) (eval ft r) cf rf xs hc hr
  simp only [eval, hl, this]

theorem C02_filter_of_non_array (ft : List FnEntry) (l r c : Node N) (d v : Val N)
    (hl : eval ft l d = .ok v) (hv : ∀ xs, v ≠ .arr xs) : eval ft (.filterProj l r c) d = .ok .null := by
  cases v with
  | arr xs => first | exact absurd rfl (hv xs) | simp only [eval, hl]
  | obj kvs => first | exact absurd rfl (hv kvs) | simp only [eval, hl]
  | _ => simp only [eval, hl]

/-- An error on the left of any projection is an error of the projection
    (never null, never a partial result). -/
theorem C02_left_error_propagates (ft : List FnEntry) (l r c : Node N) (d : Val N) (e : Err) (hl : eval ft l d = .err e) :
    eval ft (.proj l r) d = .err e ∧ eval ft (.valueProj l r) d = .err e ∧
    eval ft (.filterProj l r c) d = .err e ∧ eval ft (.flatten l) d = .err e := by
  simp only [eval, hl, and_self]

omit [NumOps N] in
/-- An error on the right-hand side for some element is an error of the projection. -/
theorem C02_element_error_propagates (f : Val N → Res (Val N)) (xs : List (Val N)) (x : Val N) (hx : x ∈ xs)
    (hf : ∀ v, f x ≠ .ok v) : ∀ ys, projectLoop f xs ≠ .ok ys := by
  induction xs with
  | nil => cases hx
  | cons y ys ih =>
    intro zs
    rcases List.mem_cons.mp hx with rfl | hmem
    · simp only [projectLoop]
      cases hfx : f x with
      | ok v => exact absurd hfx (hf v)
      | err e => simp
      | panic p => simp
    · simp only [projectLoop]
      cases f y with
      | ok v =>
        simp only []
        cases hp : projectLoop f ys with
        | ok ws => exact absurd hp (ih hmem ws)
        | err e => simp
        | panic p => simp
      | err e => simp
      | panic p => simp

/-! ### where a projection's right-hand side ends (from the printer theorem, C03)

`a[*].b.c` written without parentheses is the projection of `a` whose
right-hand side is the whole of `b.c`; a pipe ends it. -/

open Jmes.Spec Jmes.Parser in
theorem C02_rhs_extends_over_dots (a bb c : Bytes) :
    parseTokens (N := N) Generated.table
      ([tk .uident a, tk .lbracket, tk .star, tk .rbracket, tk .dot, tk .uident bb, tk .dot, tk .uident c, eofTok 0]) =
      .ok (.proj (.field a) (.sub (.field bb) (.field c))) := by
  have hw : Parser.wf (.bstar (.ident a) (.dot (.sub (.ident bb) (.ident c))) : PE N) := by
    simp [Parser.wf, Parser.wfRhs, dotOK, first, PE.isListOrHash, PE.level, PE.rp]
  have := round_trip_spec (N := N) _ hw
  rw [parseTokens_congr (sameDecisions_of_tableOK Generated.table Spec.table generated_table_ok spec_table_ok)]
  simpa [ppE, ppRhs, PE.rp, Rhs.rp, PE.isListOrHash, node, nodeRhs] using this

open Jmes.Spec Jmes.Parser in
theorem C02_pipe_ends_the_rhs (a bb c : Bytes) :
    parseTokens (N := N) Generated.table
      ([tk .uident a, tk .lbracket, tk .star, tk .rbracket, tk .dot, tk .uident bb, tk .pipe, tk .uident c, eofTok 0]) =
      .ok (.pipe (.proj (.field a) (.field bb)) (.field c)) := by
  have hw : Parser.wf (.bin .pipe (.bstar (.ident a) (.dot (.ident bb))) (.ident c) : PE N) := by
    simp [Parser.wf, Parser.wfRhs, dotOK, first, PE.isListOrHash, PE.level, PE.rp]
  have := round_trip_spec (N := N) _ hw
  rw [parseTokens_congr (sameDecisions_of_tableOK Generated.table Spec.table generated_table_ok spec_table_ok)]
  simpa [ppE, ppRhs, PE.rp, Rhs.rp, PE.level, PE.isListOrHash, node, nodeRhs, BinOp.pow, BinOp.tok, BinOp.node] using this

/-! ### … and for ARBITRARY expressions: a pipe, a closing token, a separator end whatever projection is open

The two statements below are the general facts behind "the projection ends at a pipe / closing
parenthesis": they hold for every expression `A` that compiles, whatever projections it ends in
and whatever their right-hand sides are. -/

/-- In `A | B` the pipe ends every projection left open at the end of `A`: `A | B` compiles and
    evaluates as `B` applied to the value of `A` as compiled alone. -/
theorem C02_pipe_ends_any_projection (As Bs : List Token) (eA eB pt : Token) (a b : Node N) (total : Nat)
    (heA : eA.ty = .eof) (heB : eB.ty = .eof) (hpt : pt.ty = .pipe)
    (hnA : ∀ t ∈ As, t.ty ≠ .eof) (hnB : ∀ t ∈ Bs, t.ty ≠ .eof)
    (hA : Parser.parseTokens Generated.table (As ++ [eA]) = .ok a) (hB : Parser.parseTokens Generated.table (Bs ++ [eB]) = .ok b)
    (htoks : Lexer.TokensOK total (As ++ pt :: (Bs ++ [eB]))) :
    ∃ X, Parser.parseTokens Generated.table (As ++ pt :: (Bs ++ [eB])) = .ok X ∧
      ∀ (ft : List FnEntry) (d : Val N), eval ft X d = (eval ft a d >>= fun v => eval ft b v) :=
  C15_pipe_of_any_expressions As Bs eA eB pt a b total heA heB hpt hnA hnB hA hB htoks

/-- In front of `)`, `]`, `}`, `,` or the end of input the parser has read exactly `A` and built the
    AST `A` compiles to alone: nothing after the closing token is drawn into an open projection. -/
theorem C02_closing_token_ends_any_projection (As : List Token) (eA : Token) (a : Node N)
    (heA : eA.ty = .eof) (hnA : ∀ t ∈ As, t.ty ≠ .eof) (hA : Parser.parseTokens Spec.table (As ++ [eA]) = .ok a)
    (bef : List Token) (f : Token) (rest : List Token) (hf : Parser.followerOK f.ty = true) (hpow : Parser.specPow f.ty = 0) :
    Parser.R Spec.table (.expr 0 ⟨bef, As ++ f :: rest⟩) (.node a ⟨As.reverse ++ bef, f :: rest⟩) :=
  C03_member_is_read_as_alone As eA a heA hnA hA bef f rest hf hpow

end Jmes.Props
