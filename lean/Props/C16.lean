/-
  Props.C16 — a successful Search over JSON data returns JSON data
  (DESIGN.md §7, C16).  "JSON data" = `Val.isJSON`: null, booleans, FINITE
  numbers, strings, arrays and objects with strictly ascending (hence unique)
  string keys, recursively.  The model's `Val` has no constructor for internal
  objects (expression references are closures that never become values: that is
  the parser's guarantee, C04) and does not distinguish nil from empty
  containers (that distinction is observed on the implementation by the
  harness's canonical rendering).
-/
import Props.Tables
import Proofs.EvalJson
import Proofs.JsonValue
import Proofs.IntCodec
namespace Jmes.Props
open Jmes Jmes.Interp

theorem C16_generated_table_ok : TableOK Generated.table = true := generated_table_ok
theorem C16_generated_sigs_ok : SigsOK Generated.functionTable Spec.functionTable = true := generated_sigs_ok
theorem C16_generated_lex_ok : LexTablesOK Model.lexTables Spec.lexTables = true := generated_lex_ok

variable {N : Type} [NumOps N] [NumLaws N]

/-- Closure: for numbers obeying `NumLaws` — in particular sums and averages
    of the numbers at hand stay finite: "numbers of moderate magnitude" — every
    successful evaluation of an expression whose literals are JSON, on a JSON
    document, is JSON.  Holds for every function table, so in particular for
    the one regenerated from /repo. -/
theorem C16_closure (n : Node N) (hl : litsJSON n) (d r : Val N) (hd : d.isJSON = true)
    (h : eval Generated.functionTable n d = .ok r) : r.isJSON = true :=
  eval_json Generated.functionTable n hl d r hd h

/-- In particular: no NaN or infinity at any depth. -/
theorem C16_numbers_are_finite (n : Node N) (hl : litsJSON n) (d : Val N) (hd : d.isJSON = true) (x : N)
    (h : eval Generated.functionTable n d = .ok (.num x)) : NumOps.isFinite x = true :=
  (Val.isJSON_num x).mp (C16_closure n hl d _ hd h)

/-- The two arithmetic results that can leave the finite range are guarded:
    avg of an empty array is null, to_number of a string that does not denote a
    finite number is null. -/
theorem C16_avg_empty_is_null : Fn.handle (N := N) .avg false [.val (.arr [])] = .ok .null := rfl

theorem C16_to_number_is_finite_or_null (s : Bytes) (r : Val N)
    (h : Fn.handle (N := N) .toNumber false [.val (.str s)] = .ok r) :
    r = .null ∨ ∃ x, r = .num x ∧ NumOps.isFinite x = true := by
  simp only [Fn.handle, Bool.false_eq_true, if_false] at h
  cases hp : (NumOps.parse s : Option N) with
  | none => rw [hp] at h; cases h; exact Or.inl rfl
  | some x =>
    rw [hp] at h
    simp only [] at h
    split at h
    · rename_i hfin; cases h; exact Or.inr ⟨x, rfl, hfin⟩
    · cases h; exact Or.inl rfl

/-- Raw-string literals are JSON; literals decoded from JSON text are JSON
    whenever the decoder delivers finite numbers (encoding/json rejects
    out-of-range numbers; modelled, validated on the `jsoncodec` stream). -/
theorem C16_raw_string_literal_is_json (s : Bytes) : litsJSON (N := N) (.literal (.str s)) := rfl

/-! Non-vacuity: the integers satisfy `NumLaws`; a concrete evaluation. -/
example : NumLaws Int := inferInstance
example : eval (N := Int) Generated.functionTable (.msList [.current, .literal (.str [0x78])]) (.num 3)
    = .ok (.arr [.num 3, .str [0x78]]) := by simp [eval, evalList]

/-! ### serialised and read back as an equal value -/

open Jmes.Json in
/-- **`json.Unmarshal(json.Marshal(v)) = v`** for every JSON value whose numbers
    are finite, whose strings and keys are well-formed UTF-8, whose objects have
    ascending keys (as `Unmarshal` builds them) and whose depth is within
    `encoding/json`'s limit — given the contract `NumCodec` of the number text
    codec (float formatting/parsing: ported algorithms, validated by differential
    testing, not verified).  With `C16_closure` (results are JSON values): a
    successful Search result can be serialised and read back as an equal value. -/
theorem C16_serialise_and_read_back (hN : NumCodec N) (v : Val N) (hv : okV v) (hd : depthV v ≤ maxDepth) :
    decode (encode v) = some v :=
  decode_encode hN v hv hd

open Jmes.Json in
/-- strings alone need no assumption: every well-formed UTF-8 string survives encode/decode -/
theorem C16_string_round_trip (s : Bytes) (hv : ValidUtf8 s) :
    (decode (encode (.str s : Val N)) : Option (Val N)) = some (.str s) := by
  unfold decode
  have := parse_str (N := N) s hv (encode (.str s : Val N)).length 0 []
  simp only [List.append_nil] at this
  rw [this]
  rfl

/-- The contract `NumCodec` is satisfiable: the integer instance of the number
    interface meets it (decimal text is a JSON number token that parses back),
    so `C16_serialise_and_read_back` is not vacuous. -/
theorem C16_num_codec_satisfiable : Json.NumCodec Int := intNumCodec

end Jmes.Props
