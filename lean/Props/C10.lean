/-
  Props.C10 — ill-typed, wrong-arity and unknown function calls are errors,
  never panics (DESIGN.md §7, C10).  Statements are about
  `Fn.callFunction` with the table REGENERATED from /repo
  (`Generated.functionTable`), carried over from the specification's table
  through `generated_sigs_ok`.
-/
import Props.Tables
import Proofs.ErrFlow
import Proofs.FunctionsSafe
import Proofs.WellTyped
import Proofs.SortKeys
namespace Jmes.Props
open Jmes Jmes.Fn

theorem C10_generated_table_ok : TableOK Generated.table = true := generated_table_ok
/-- The regenerated function table has exactly the specification's 26 names,
    each wired to its own handler, with the specification's signature. -/
theorem C10_generated_sigs_ok : SigsOK Generated.functionTable Spec.functionTable = true := generated_sigs_ok
theorem C10_generated_lex_ok : LexTablesOK Model.lexTables Spec.lexTables = true := generated_lex_ok

/-- The regenerated error-flow facts (tools/errflow, go/ssa): at every call site of the package whose callee
    returns an error, the error is returned to the caller (as it is, or replaced by another error), except at
    the sites `Spec.allowed` lists (the sorters' `Less`, `to_number`'s ParseFloat, in-memory buffer writes,
    MustCompile's panic, the parser's token alternatives). -/
theorem C10_generated_errflow_ok : Spec.ErrFlowOK GeneratedErrFlow.sites = true := generated_errflow_ok

theorem C10_errors_are_returned_at_every_call_site (s : GeneratedErrFlow.Site) (h : s ∈ GeneratedErrFlow.sites) :
    s.status = .propagated ∨ s.status = .replaced ∨ Spec.allowed s = true := errflow_site s h

variable {N : Type} [NumOps N]

/-- The library's `CallFunction` is the specification table's. -/
theorem C10_call_is_spec_call (name : Bytes) (args : List (Arg N)) :
    callFunction Generated.functionTable name args = callFunction Spec.functionTable name args :=
  callFunction_congr _ _ generated_sigs_ok name args

/-- The declared signature of a name, if the specification knows it. -/
def sigOf (name : Bytes) : Option (List ArgSpec) :=
  (Spec.functionTable.find? (fun e => keyBytes e.key = name)).map (·.args)

/-- An unknown function name is an error. -/
theorem C10_unknown_function (name : Bytes) (args : List (Arg N)) (h : sigOf name = none) :
    ∃ e, callFunction Generated.functionTable name args = .err e := by
  rw [C10_call_is_spec_call]
  unfold sigOf at h
  unfold callFunction
  cases hf : List.find? (fun e => keyBytes e.key = name) Spec.functionTable with
  | none => exact ⟨_, rfl⟩
  | some e => rw [hf] at h; simp at h

/-- A known function called with the wrong number of arguments, or with any
    argument — in any position, variadic ones included, an expression reference
    where a value is required or a value where a reference is required —
    outside its declared types, is an error: never a value, never a panic. -/
theorem C10_ill_typed_call_is_error (name : Bytes) (sig : List ArgSpec) (args : List (Arg N))
    (hs : sigOf name = some sig) (hw : ¬ WellTyped sig args) :
    ∃ e, callFunction Generated.functionTable name args = .err e := by
  rw [C10_call_is_spec_call]
  unfold sigOf at hs
  unfold callFunction
  cases hf : List.find? (fun e => keyBytes e.key = name) Spec.functionTable with
  | none => exact ⟨_, rfl⟩
  | some e =>
    rw [hf] at hs
    simp only [Option.map_some, Option.some.injEq] at hs
    subst hs
    have hne : resolveArgs e args ≠ .ok () := fun h => hw ((resolveArgs_ok_iff e args).mp h)
    obtain ⟨er, her⟩ := resolveArgs_err_of_not_ok e args hne
    exact ⟨er, by simp only [her]⟩

/-- No call panics, whatever the name and the arguments (given that the
    expression references among them do not: see C05 for the interpreter). -/
theorem C10_calls_never_panic (name : Bytes) (args : List (Arg N)) (hs : RefsSafe args) :
    (callFunction Generated.functionTable name args).isPanic = false := by
  rw [C10_call_is_spec_call]
  exact spec_call_np name args hs

/-- `sort_by`: a first key that is neither a number nor a string is an error
    — for every array length ≥ 1, the one-element array included. -/
theorem C10_sort_by_key_type (f : Val N → Res (Val N)) (x : Val N) (xs : List (Val N)) (k : Val N)
    (hk : f x = .ok k) (hn : ∀ n, k ≠ .num n) (hstr : ∀ s, k ≠ .str s) :
    ∃ e, sortBy f (x :: xs) = .err e := by
  cases k with
  | num n => exact absurd rfl (hn n)
  | str s => exact absurd rfl (hstr s)
  | _ => simp only [sortBy, hk]; exact ⟨_, rfl⟩

/-- `max_by` / `min_by` likewise. -/
theorem C10_extreme_by_key_type (f : Val N → Res (Val N)) (isMax : Bool) (x : Val N) (xs : List (Val N)) (k : Val N)
    (hk : f x = .ok k) (hn : ∀ n, k ≠ .num n) (hstr : ∀ s, k ≠ .str s) :
    ∃ e, extremeBy f isMax (x :: xs) = .err e := by
  cases k with
  | num n => exact absurd rfl (hn n)
  | str s => exact absurd rfl (hstr s)
  | _ => simp only [extremeBy, hk]; exact ⟨_, rfl⟩

/-- A key expression that fails makes the by-expression function fail. -/
theorem C10_by_key_error_propagates (f : Val N → Res (Val N)) (isMax : Bool) (x : Val N) (xs : List (Val N)) (e : Err)
    (hk : f x = .err e) : sortBy f (x :: xs) = .err e ∧ extremeBy f isMax (x :: xs) = .err e := by
  constructor <;> simp only [sortBy, extremeBy, hk]

/-- Keys that are not consistently numbers: a number first and a non-number later is an error. -/
theorem C10_mixed_keys_max_by (f : Val N → Res (Val N)) (isMax : Bool) (x y : Val N) (n : N) (k : Val N)
    (h0 : f x = .ok (.num n)) (h1 : f y = .ok k) (hk : ∀ m, k ≠ .num m) :
    ∃ e, extremeBy f isMax [x, y] = .err e := by
  cases k with
  | num m => exact absurd rfl (hk m)
  | _ => simp only [extremeBy, h0, byLoopNum, h1]; exact ⟨_, rfl⟩

theorem C10_mixed_keys_sort_by (f : Val N → Res (Val N)) (x y : Val N) (n : N) (k : Val N)
    (h0 : f x = .ok (.num n)) (h1 : f y = .ok k) (hk : ∀ m, k ≠ .num m) :
    ∃ e, sortBy f [x, y] = .err e := by
  cases k with
  | num m => exact absurd rfl (hk m)
  | _ => simp only [sortBy, h0, keysNum, h1]; exact ⟨_, rfl⟩

/-- `sort_by` over an array of ANY length: when the first key is a number and ANY later element — wherever it sits — has a key
    that is not a number, the call is an error (no key evaluation panicking).  (Round 11's C10-m21 / C11-m22 validate only part
    of the keys once the array is longer than a block of the sorting routine.) -/
theorem C10_mixed_keys_sort_by_any_position (f : Val N → Res (Val N)) (x : Val N) (rest : List (Val N)) (n : N) (y k : Val N)
    (h0 : f x = .ok (.num n)) (hy : y ∈ rest) (h1 : f y = .ok k) (hk : ∀ m, k ≠ .num m)
    (hp : ∀ z ∈ rest, ∀ p, f z ≠ .panic p) : ∃ e, sortBy f (x :: rest) = .err e := by
  have hnone := keysNum_none_of_odd_key f rest y k hy h1 hk hp
  cases rest with
  | nil => cases hy
  | cons r rs => simp only [sortBy, h0, hnone]; exact ⟨_, rfl⟩

theorem C10_mixed_keys_sort_by_strings_any_position (f : Val N → Res (Val N)) (x : Val N) (rest : List (Val N)) (s0 : Bytes) (y k : Val N)
    (h0 : f x = .ok (.str s0)) (hy : y ∈ rest) (h1 : f y = .ok k) (hk : ∀ s, k ≠ .str s)
    (hp : ∀ z ∈ rest, ∀ p, f z ≠ .panic p) : ∃ e, sortBy f (x :: rest) = .err e := by
  have hnone := keysStr_none_of_odd_key f rest y k hy h1 hk hp
  cases rest with
  | nil => cases hy
  | cons r rs => simp only [sortBy, h0, hnone]; exact ⟨_, rfl⟩

/-- `max_by` / `min_by` likewise, for any length and any position of the odd key. -/
theorem C10_mixed_keys_extreme_by_any_position (f : Val N → Res (Val N)) (isMax : Bool) (x : Val N) (rest : List (Val N)) (n : N) (y k : Val N)
    (h0 : f x = .ok (.num n)) (hy : y ∈ rest) (h1 : f y = .ok k) (hk : ∀ m, k ≠ .num m)
    (hp : ∀ z ∈ rest, ∀ p, f z ≠ .panic p) : ∃ e, extremeBy f isMax (x :: rest) = .err e := by
  simp only [extremeBy, h0]
  exact byLoopNum_err_of_odd_key f _ rest y k hy h1 hk hp _ _

theorem C10_mixed_keys_extreme_by_strings_any_position (f : Val N → Res (Val N)) (isMax : Bool) (x : Val N) (rest : List (Val N)) (s0 : Bytes) (y k : Val N)
    (h0 : f x = .ok (.str s0)) (hy : y ∈ rest) (h1 : f y = .ok k) (hk : ∀ s, k ≠ .str s)
    (hp : ∀ z ∈ rest, ∀ p, f z ≠ .panic p) : ∃ e, extremeBy f isMax (x :: rest) = .err e := by
  simp only [extremeBy, h0]
  exact byLoopStr_err_of_odd_key f _ rest y k hy h1 hk hp _ _

/-- Non-vacuity of the any-position statements: 33 number keys with one string key at index 20 (the shape round 11's changes let through). -/
example : ∃ e, sortBy (N := Int) (fun v => .ok v) (.num 0 :: ((List.range 32).map fun (i : Nat) => if i = 19 then Val.str [0x78] else Val.num (40 - (i : Int)))) = .err e :=
  C10_mixed_keys_sort_by_any_position _ _ _ 0 (.str [0x78]) (.str [0x78]) rfl (List.mem_map.mpr ⟨19, by decide, by simp⟩) rfl (by intro m h; cases h)
    (by intro z _ p h; cases h)

/-! Non-vacuity. -/
example : sigOf (keyBytes "merge") = some [{ types := [.object], variadic := true }] := by decide +kernel
example : sigOf (keyBytes "nosuch") = none := by decide +kernel
example : ¬ WellTyped [({ types := [.object], variadic := true } : ArgSpec)] [(.val (.str [0x61]) : Arg Int)] := by
  intro h
  have := h.2 0 (by simp)
  simp [typeCheck, typeOk] at this
example : ¬ WellTyped [({ types := [.any], variadic := false } : ArgSpec)] [(.ref (fun v => .ok v) : Arg Int)] := by
  intro h
  have := h.2 0 (by simp)
  simp [typeCheck, typeOk] at this

end Jmes.Props
