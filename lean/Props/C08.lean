/-
  Props.C08 — slices select what Python-style extended slicing selects, for
  all integers (DESIGN.md §7, C08).

  Model side: `Interp.eval … (.slice a b c)` → `Slice.slice` = util.go's
  computeSliceParams / capSlice / the two loops, with 64-bit wrap-around on
  every arithmetic operation, a panic on every out-of-range `slice[i]` and a
  bounded fuel whose exhaustion models a hang.
  Spec side: `Spec.pySlice` = Python's definition (indices start + n·step for
  0 ≤ n < ⌈(stop − start)/step⌉ after PySlice_AdjustIndices), no loop.
-/
import Props.Tables
import Proofs.Slice
import Proofs.GenSlice
import Jmes.Interp
namespace Jmes.Props
open Jmes Jmes.Slice Jmes.Spec

theorem C08_generated_table_ok : TableOK Generated.table = true := generated_table_ok
theorem C08_generated_sigs_ok : SigsOK Generated.functionTable Spec.functionTable = true := generated_sigs_ok
theorem C08_generated_lex_ok : LexTablesOK Model.lexTables Spec.lexTables = true := generated_lex_ok

/-- 64-bit operands, as `strconv.Atoi` delivers them. -/
def OptInRange (v : Option Int) : Prop := ∀ x, v = some x → InRange x

/-- Main theorem: on an array, for every length and every present or absent
    start/stop/step in the int64 range with step ≠ 0, the slice expression
    evaluates — without panic, hang or error — to exactly the elements Python's
    extended slicing selects, in that order. -/
theorem C08_slice_is_python_slice {N : Type} [NumOps N] (ft : List FnEntry) (xs : List (Val N))
    (a b c : Option Int) (hlen : InRange xs.length)
    (ha : OptInRange a) (hb : OptInRange b) (hc : OptInRange c) (h0 : c ≠ some 0) :
    Interp.eval ft (.slice a b c) (.arr xs)
      = .ok (.arr ((pySlice xs.length a b (c.getD 1)).filterMap (getIdx xs))) := by
  simp only [Interp.eval]
  rw [slice_eq_pySlice xs a b c hlen ha hb hc h0]

/-- Every index Python selects exists, so `filterMap` above drops nothing:
    the result has exactly one element per selected index. -/
theorem C08_every_selected_index_exists {α} (xs : List α) (a b : Option Int) (step : Int) (hs : step ≠ 0) :
    ((pySlice xs.length a b step).filterMap (getIdx xs)).length = (pySlice xs.length a b step).length := by
  have hb := pySlice_inbounds xs.length a b step hs
  generalize pySlice xs.length a b step = l at hb
  induction l with
  | nil => rfl
  | cons i rest ih =>
    obtain ⟨x, hx⟩ := getIdx_some xs i (hb i (by simp)).1 (hb i (by simp)).2
    simp only [List.filterMap_cons, hx, List.length_cons]
    rw [ih (fun j hj => hb j (by simp [hj]))]

/-- The model's `getIdx` is plain indexing. -/
theorem C08_getIdx_is_indexing {α} (xs : List α) (i : Nat) : getIdx xs (i : Int) = xs[i]? := by
  unfold getIdx
  have : ¬ ((i : Int) < 0) := by omega
  simp [this]

/-- A step of 0 is an error when applied to an array … -/
theorem C08_step_zero_is_error {N : Type} [NumOps N] (ft : List FnEntry) (xs : List (Val N)) (a b : Option Int) :
    ∃ e, Interp.eval ft (.slice a b (some 0)) (.arr xs) = .err e := by
  by_cases h : (9223372036854775807 : Int) < xs.length
  · exact ⟨.other "unreachable: len(slice) exceeds MaxInt64", by simp [Interp.eval, Slice.slice, h]⟩
  · exact ⟨.other "Invalid slice, step cannot be 0", by simp [Interp.eval, Slice.slice, computeSliceParams, stepOf, h]⟩

/-- … and slicing anything that is not an array yields null, whatever the parameters. -/
theorem C08_non_array_is_null {N : Type} [NumOps N] (ft : List FnEntry) (d : Val N) (a b c : Option Int)
    (hd : ∀ xs, d ≠ .arr xs) : Interp.eval ft (.slice a b c) d = .ok .null := by
  cases d with
  | arr xs => exact absurd rfl (hd xs)
  | null => simp [Interp.eval]
  | bool _ => simp [Interp.eval]
  | num _ => simp [Interp.eval]
  | str _ => simp [Interp.eval]
  | obj _ => simp [Interp.eval]

/-- No parameter value, however large, causes a panic or a hang. -/
theorem C08_never_panics {N : Type} [NumOps N] (ft : List FnEntry) (d : Val N) (a b c : Option Int)
    (hlen : ∀ xs, d = .arr xs → InRange xs.length)
    (ha : OptInRange a) (hb : OptInRange b) (hc : OptInRange c) :
    (Interp.eval ft (.slice a b c) d).isPanic = false := by
  cases d with
  | arr xs =>
    by_cases h0 : c = some 0
    · subst h0
      obtain ⟨e, he⟩ := C08_step_zero_is_error ft xs a b
      rw [he]; rfl
    · rw [C08_slice_is_python_slice ft xs a b c (hlen xs rfl) ha hb hc h0]; rfl
  | null => simp [Interp.eval, Res.isPanic]
  | bool _ => simp [Interp.eval, Res.isPanic]
  | num _ => simp [Interp.eval, Res.isPanic]
  | str _ => simp [Interp.eval, Res.isPanic]
  | obj _ => simp [Interp.eval, Res.isPanic]

/-- The integers of a slice literal come from `strconv.Atoi`: always in the int64 range. -/
theorem C08_parsed_integers_in_range (s : Bytes) (v : Int) (h : Parser.atoi s = some v) : InRange v := by
  unfold Parser.atoi at h
  obtain ⟨w, _, hw⟩ := Option.bind_eq_some_iff.mp h
  unfold Parser.clampInt64 at hw
  split at hw
  · rename_i hr
    cases hw
    unfold InRange; unfold Parser.minInt64 Parser.maxInt64 at hr
    omega
  · exact absurd hw (by simp)

/-! ### The arithmetic as written in /repo

`Jmes/GeneratedSlice.lean` is the translation of util.go's `capSlice` and `computeSliceParams`
into Lean, produced from /repo's working tree by `tools/gotolean` on every run.  The next four
theorems are about THAT text, not about the hand-written model: whatever the Go functions say
now is what is proved to be Python's slice arithmetic; the two loops of `slice` are translated by
pattern (see tools/gotolean) and proved equal to the model's loops. -/

/-- The translated `capSlice` is the model's, on every length of a Go slice and all int64 operands. -/
theorem C08_translated_capSlice (length actual step : Int) (hl0 : 0 ≤ length) (hl : InRange length)
    (ha : InRange actual) (hs : InRange step) :
    GenSlice.capSlice length actual step = Slice.capSlice length actual step :=
  gen_capSlice_eq length actual step hl0 hl.2 ha hs

/-- The translated `computeSliceParams` succeeds exactly when the model's does, with the same three numbers. -/
theorem C08_translated_computeSliceParams (length : Int) (a b c : Option Int) (hl0 : 0 ≤ length) (hl : InRange length)
    (ha : OptInRange a) (hb : OptInRange b) (hc : OptInRange c) :
    (GenSlice.computeSliceParams length [GenSlice.param a, GenSlice.param b, GenSlice.param c]).toOption
      = (GenSlice.expected length a b c).toOption :=
  gen_computeSliceParams_eq length a b c ⟨hl0, hl.2, ha, hb, hc⟩

/-- Main theorem again, for the translated arithmetic followed by the loops: Python's slice. -/
theorem C08_translated_slice_is_python_slice {α} (xs : List α) (a b c : Option Int) (hlen : InRange xs.length)
    (ha : OptInRange a) (hb : OptInRange b) (hc : OptInRange c) (h0 : c ≠ some 0) :
    GenSlice.slice (xs.length + 1) xs [GenSlice.param a, GenSlice.param b, GenSlice.param c]
      = .ok ((pySlice xs.length a b (c.getD 1)).filterMap (getIdx xs)) :=
  gen_slice_eq_pySlice xs a b c hlen ha hb hc h0

/-- The two translated loops are the model's loops (so what is proved about `Slice.slice` is proved about them). -/
theorem C08_translated_loops {α} (xs : List α) (start stop step : Int) (fuel : Nat) (i : Int) :
    GenSlice.sliceLoop1 xs start stop step fuel i = Slice.loopUp xs stop step fuel i ∧
    GenSlice.sliceLoop2 xs start stop step fuel i = Slice.loopDown xs stop step fuel i :=
  ⟨gen_loop1_eq xs start stop step fuel i, gen_loop2_eq xs start stop step fuel i⟩

theorem C08_translated_step_zero_is_error {α} (xs : List α) (a b : Option Int) (hlen : InRange xs.length)
    (ha : OptInRange a) (hb : OptInRange b) (fuel : Nat) :
    ∃ e, GenSlice.slice fuel xs [GenSlice.param a, GenSlice.param b, GenSlice.param (some 0)] = .err e :=
  gen_slice_step_zero xs a b hlen ha hb fuel

/-! Non-vacuity: concrete instances of the hypotheses and of the statement. -/

example : InRange ((List.range 5).length : Int) ∧ OptInRange (some (-6)) ∧ OptInRange none ∧ (some (-1) : Option Int) ≠ some 0 := by
  refine ⟨by unfold InRange; decide, ?_, ?_, by decide⟩
  · intro x h; cases h; unfold InRange; decide
  · intro x h; cases h

example : pySlice 5 none (some (-6)) (-1) = [4, 3, 2, 1, 0] := by decide
example : pySlice 4 none (some (-4)) (-1) = [3, 2, 1] := by decide
example : pySlice 3 (some 1) none 9223372036854775807 = [1] := by decide
example : Slice.slice [10, 11, 12, 13] (some (-9223372036854775808)) none none = .ok [10, 11, 12, 13] := by rfl
example : GenSlice.slice 5 [10, 11, 12, 13] [GenSlice.param (some (-9223372036854775808)), GenSlice.param none, GenSlice.param (some (-2))] = .ok ([] : List Nat) := by rfl
example : GenSlice.slice 5 [10, 11, 12, 13] [GenSlice.param none, GenSlice.param (some (-9223372036854775808)), GenSlice.param (some (-2))] = .ok [13, 11] := by rfl

end Jmes.Props
