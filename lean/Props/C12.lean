/-
  Props.C12 — a compiled expression is safe for concurrent use (DESIGN.md §7, C12).

  (1) `C12_generated_writes_ok`: the write-site facts regenerated from /repo —
      no reachable instruction writes to the compiled expression, to package
      state or to the caller's documents.
  (2) `C12_schedule_independent`, `C12_shared_unchanged`, `C12_no_conflicting_access`:
      in the abstract machine of Spec/Threads.lean, under exactly that
      hypothesis, EVERY interleaving of any number of calls gives each call the
      run (program counter, private memory, hence result) it has alone, leaves
      shared memory untouched, and contains no pair of conflicting accesses.
  (3) in the model a compiled expression is a value and `searchCompiled` a
      function, so the answer of a call cannot depend on other calls
      (`C12_model_result_is_a_function`).
  What the model cannot exhibit — the Go memory model below sequential
  consistency, the race detector's happens-before — is covered by the run of
  the real code under `-race` with N goroutines per compiled expression
  (harness `race` mode), compared with the model's answers.
-/
import Props.Tables
import Props.Writes
import Proofs.Threads
import Jmes.Api
namespace Jmes.Props
open Jmes Jmes.Api

theorem C12_generated_table_ok : TableOK Generated.table = true := generated_table_ok
theorem C12_generated_sigs_ok : SigsOK Generated.functionTable Spec.functionTable = true := generated_sigs_ok
theorem C12_generated_lex_ok : LexTablesOK Model.lexTables Spec.lexTables = true := generated_lex_ok

theorem C12_generated_writes_ok : WritesOK GeneratedWrites.writeSites = true := generated_writes_ok

section Machine
variable {T L V PC : Type} [DecidableEq T] [DecidableEq L] (S : Threads.Sys T L V PC)

/-- Every call returns what the same call returns when made alone: under any
    schedule, call `t`'s program counter and every location it owns are those
    of its solo run with the same number of steps. -/
theorem C12_schedule_independent (hw : Threads.WritesPrivate S) (hr : Threads.ReadsOwn S)
    (c : Threads.Conf T L V PC) (sched : List T) (t : T) :
    (S.run c sched).pcs t = (S.run c (List.replicate (sched.count t) t)).pcs t ∧
    ∀ l, S.owner l = some t → (S.run c sched).heap l = (S.run c (List.replicate (sched.count t) t)).heap l := by
  have h := Threads.schedule_independent S hw hr c sched t
  exact ⟨h.1, fun l hl => h.2 l (Or.inr hl)⟩

/-- The compiled expression, library state and the documents are never written. -/
theorem C12_shared_unchanged (hw : Threads.WritesPrivate S) (c : Threads.Conf T L V PC) (sched : List T) (l : L)
    (hl : S.owner l = none) : (S.run c sched).heap l = c.heap l :=
  Threads.shared_unchanged S hw c sched l hl

/-- No data race: a location one call writes is neither shared nor another call's. -/
theorem C12_no_conflicting_access (hw : Threads.WritesPrivate S) (t u : T) (hne : t ≠ u) (h : L → V) (pc : PC)
    (lv : L × V) (hlv : lv ∈ (S.step t h pc).2) : ¬ (S.owner lv.1 = none ∨ S.owner lv.1 = some u) :=
  Threads.no_conflicting_access S hw t u hne h pc lv hlv
end Machine

variable {N : Type} [NumOps N]

/-- In the model the answer of a compiled search is a function of the compiled
    AST and the document; the state an operation sequence threads through does
    not enter it. -/
theorem C12_model_result_is_a_function (cfg : Config) (s1 s2 : State N) (h d : Nat)
    (hh : s1.handles.lookup h = s2.handles.lookup h) (hd : s1.docs.lookup d = s2.docs.lookup d) :
    (step cfg s1 (.searchC h d)).2 = (step cfg s2 (.searchC h d)).2 := by
  simp only [step, hh, hd]
  split <;> rfl

/-! ### the machine instantiated: N goroutines calling `Search`

Shared memory holds documents and compiled expressions; goroutine `t` runs one
`Search` of document `docIx t` with compiled expression `astIx t` and writes the
answer into a slot it owns.  Under EVERY schedule each goroutine that got to run
holds exactly what the call returns when made alone — `searchCompiled` of the
initial document and expression — and the shared cells are what they were. -/

inductive Loc (T : Type) where
  | doc (i : Nat) | ast (i : Nat) | result (t : T)
  deriving DecidableEq

inductive Cell (N : Type) where
  | doc (v : Val N) | ast (n : Node N) | res (r : Option (Res (Val N)))

def searchSys {T : Type} (cfg : Config) (docIx astIx : T → Nat) : Threads.Sys T (Loc T) (Cell N) Bool where
  owner := fun l => match l with | .result t => some t | _ => none
  step := fun t h pc =>
    if pc then (true, [])
    else match h (.ast (astIx t)), h (.doc (docIx t)) with
      | .ast a, .doc d => (true, [(.result t, .res (some (searchCompiled cfg a d)))])
      | _, _ => (true, [(.result t, .res none)])

theorem searchSys_writesPrivate {T : Type} [DecidableEq T] (cfg : Config) (docIx astIx : T → Nat) :
    Threads.WritesPrivate (searchSys (N := N) cfg docIx astIx) := by
  intro t h pc lv hlv
  simp only [searchSys] at hlv ⊢
  split at hlv
  · simp at hlv
  · split at hlv <;> (simp at hlv; subst hlv; rfl)

theorem searchSys_readsOwn {T : Type} [DecidableEq T] (cfg : Config) (docIx astIx : T → Nat) :
    Threads.ReadsOwn (searchSys (N := N) cfg docIx astIx) := by
  intro t h h' pc hagree
  simp only [searchSys]
  rw [hagree (.ast (astIx t)) (Or.inl rfl), hagree (.doc (docIx t)) (Or.inl rfl)]

/-- the solo run: after one or more steps of `t` alone, its slot holds the answer -/
theorem searchSys_solo {T : Type} [DecidableEq T] (cfg : Config) (docIx astIx : T → Nat) (c : Threads.Conf T (Loc T) (Cell N) Bool)
    (t : T) (a : Node N) (d : Val N) (hpc : c.pcs t = false) (ha : c.heap (.ast (astIx t)) = .ast a) (hd : c.heap (.doc (docIx t)) = .doc d) :
    ∀ n, ((searchSys cfg docIx astIx).run c (List.replicate (n + 1) t)).heap (.result t) = .res (some (searchCompiled cfg a d)) := by
  -- first step
  have h1 : ((searchSys (N := N) cfg docIx astIx).exec c t).heap (.result t) = .res (some (searchCompiled cfg a d)) ∧
      ((searchSys (N := N) cfg docIx astIx).exec c t).pcs t = true := by
    simp [Threads.Sys.exec, searchSys, hpc, ha, hd, Threads.write]
  -- once done, further steps change nothing
  have hdone : ∀ (c' : Threads.Conf T (Loc T) (Cell N) Bool), c'.pcs t = true →
      ∀ m, ((searchSys (N := N) cfg docIx astIx).run c' (List.replicate m t)).heap = c'.heap ∧
        ((searchSys (N := N) cfg docIx astIx).run c' (List.replicate m t)).pcs t = true := by
    intro c' hp m
    induction m generalizing c' with
    | zero => exact ⟨rfl, hp⟩
    | succ m ih =>
      simp only [Threads.Sys.run, List.replicate_succ, List.foldl_cons]
      have he : (searchSys (N := N) cfg docIx astIx).exec c' t = c' := by
        cases c' with
        | mk heap pcs =>
          simp only [Threads.Sys.exec, searchSys] at hp ⊢
          simp only [hp, if_true, Threads.write]
          congr 1
          funext u
          by_cases hu : u = t
          · subst hu; simp [hp]
          · simp [hu]
      rw [he]
      exact ih c' hp
  intro n
  simp only [Threads.Sys.run, List.replicate_succ, List.foldl_cons]
  have := hdone _ h1.2 n
  simp only [Threads.Sys.run] at this
  rw [this.1]
  exact h1.1

/-- **Every interleaving**: a goroutine that was scheduled at least once holds the answer of its
    own call made alone, whatever the other goroutines did in between. -/
theorem C12_concurrent_searches {T : Type} [DecidableEq T] (cfg : Config) (docIx astIx : T → Nat)
    (c : Threads.Conf T (Loc T) (Cell N) Bool) (sched : List T) (t : T) (a : Node N) (d : Val N)
    (hpc : c.pcs t = false) (ha : c.heap (.ast (astIx t)) = .ast a) (hd : c.heap (.doc (docIx t)) = .doc d)
    (hrun : t ∈ sched) :
    ((searchSys cfg docIx astIx).run c sched).heap (.result t) = .res (some (searchCompiled cfg a d)) := by
  have hagree := Threads.schedule_independent (searchSys (N := N) cfg docIx astIx)
    (searchSys_writesPrivate cfg docIx astIx) (searchSys_readsOwn cfg docIx astIx) c sched t
  have hcount : 0 < sched.count t := List.count_pos_iff.mpr hrun
  obtain ⟨n, hn⟩ : ∃ n, sched.count t = n + 1 := ⟨sched.count t - 1, by omega⟩
  rw [hagree.2 (.result t) (Or.inr rfl), hn]
  exact searchSys_solo cfg docIx astIx c t a d hpc ha hd n

/-- … and the documents and compiled expressions are what they were. -/
theorem C12_concurrent_searches_leave_shared {T : Type} [DecidableEq T] (cfg : Config) (docIx astIx : T → Nat)
    (c : Threads.Conf T (Loc T) (Cell N) Bool) (sched : List T) (i : Nat) :
    ((searchSys cfg docIx astIx).run c sched).heap (.doc i) = c.heap (.doc i) ∧
    ((searchSys cfg docIx astIx).run c sched).heap (.ast i) = c.heap (.ast i) :=
  ⟨Threads.shared_unchanged _ (searchSys_writesPrivate cfg docIx astIx) c sched _ rfl,
   Threads.shared_unchanged _ (searchSys_writesPrivate cfg docIx astIx) c sched _ rfl⟩

end Jmes.Props
