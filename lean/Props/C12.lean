/-
  Props.C12 — a compiled expression is safe for concurrent use (DESIGN.md §7, C12).

  (1) `C12_generated_writes_ok`: the write-site facts regenerated from /repo —
      no reachable instruction writes to the compiled expression, to package
      state or to the caller's documents.
  (2) `C12_schedule_independent`, `C12_shared_unchanged`, `C12_no_conflicting_access`:
      in the abstract machine of Spec/Threads.lean, under exactly that
      hypothesis, EVERY interleaving of any number of calls gives each call the
      run (program counter, private memory, hence result) it has alone, leaves
      shared memory untouched, and contains no pair of conflicting accesses.
  (3) in the model a compiled expression is a value and `searchCompiled` a
      function, so the answer of a call cannot depend on other calls
      (`C12_model_result_is_a_function`).
  What the model cannot exhibit — the Go memory model below sequential
  consistency, the race detector's happens-before — is covered by the run of
  the real code under `-race` with N goroutines per compiled expression
  (harness `race` mode), compared with the model's answers.
-/
import Props.Tables
import Props.Writes
import Proofs.Threads
import Jmes.Api
namespace Jmes.Props
open Jmes Jmes.Api

theorem C12_generated_table_ok : TableOK Generated.table = true := generated_table_ok
theorem C12_generated_sigs_ok : SigsOK Generated.functionTable Spec.functionTable = true := generated_sigs_ok
theorem C12_generated_lex_ok : LexTablesOK Model.lexTables Spec.lexTables = true := generated_lex_ok

theorem C12_generated_writes_ok : WritesOK GeneratedWrites.writeSites = true := generated_writes_ok

section Machine
variable {T L V PC : Type} [DecidableEq T] [DecidableEq L] (S : Threads.Sys T L V PC)

/-- Every call returns what the same call returns when made alone: under any
    schedule, call `t`'s program counter and every location it owns are those
    of its solo run with the same number of steps. -/
theorem C12_schedule_independent (hw : Threads.WritesPrivate S) (hr : Threads.ReadsOwn S)
    (c : Threads.Conf T L V PC) (sched : List T) (t : T) :
    (S.run c sched).pcs t = (S.run c (List.replicate (sched.count t) t)).pcs t ∧
    ∀ l, S.owner l = some t → (S.run c sched).heap l = (S.run c (List.replicate (sched.count t) t)).heap l := by
  have h := Threads.schedule_independent S hw hr c sched t
  exact ⟨h.1, fun l hl => h.2 l (Or.inr hl)⟩

/-- The compiled expression, library state and the documents are never written. -/
theorem C12_shared_unchanged (hw : Threads.WritesPrivate S) (c : Threads.Conf T L V PC) (sched : List T) (l : L)
    (hl : S.owner l = none) : (S.run c sched).heap l = c.heap l :=
  Threads.shared_unchanged S hw c sched l hl

/-- No data race: a location one call writes is neither shared nor another call's. -/
theorem C12_no_conflicting_access (hw : Threads.WritesPrivate S) (t u : T) (hne : t ≠ u) (h : L → V) (pc : PC)
    (lv : L × V) (hlv : lv ∈ (S.step t h pc).2) : ¬ (S.owner lv.1 = none ∨ S.owner lv.1 = some u) :=
  Threads.no_conflicting_access S hw t u hne h pc lv hlv
end Machine

variable {N : Type} [NumOps N]

/-- In the model the answer of a compiled search is a function of the compiled
    AST and the document; the state an operation sequence threads through does
    not enter it. -/
theorem C12_model_result_is_a_function (cfg : Config) (s1 s2 : State N) (h d : Nat)
    (hh : s1.handles.lookup h = s2.handles.lookup h) (hd : s1.docs.lookup d = s2.docs.lookup d) :
    (step cfg s1 (.searchC h d)).2 = (step cfg s2 (.searchC h d)).2 := by
  simp only [step, hh, hd]
  split <;> rfl

end Jmes.Props
