/-
  Props.C07 — truthiness, logical operators and comparators follow the
  specification (DESIGN.md §7, C07).  All statements are about
  `Interp.eval`, the model of `treeInterpreter.Execute`, for every AST, every
  document and every function table.
-/
import Props.Tables
import Proofs.Value
import Jmes.Interp
import Proofs.GenIndex
namespace Jmes.Props
open Jmes Jmes.Interp

theorem C07_generated_table_ok : TableOK Generated.table = true := generated_table_ok
theorem C07_generated_sigs_ok : SigsOK Generated.functionTable Spec.functionTable = true := generated_sigs_ok
theorem C07_generated_lex_ok : LexTablesOK Model.lexTables Spec.lexTables = true := generated_lex_ok

variable {N : Type} [NumOps N]

/-- The JMESPath truth definition: exactly false, null, the empty string, the
    empty array and the empty object are false-like — in particular every
    number, 0 included, is true-like. -/
theorem C07_false_like_values (v : Val N) :
    v.isFalse = true ↔ (v = .null ∨ v = .bool false ∨ v = .str [] ∨ v = .arr [] ∨ v = .obj []) := by
  cases v with
  | null => simp [Val.isFalse]
  | bool b => cases b <;> simp [Val.isFalse]
  | num n => simp [Val.isFalse]
  | str s => cases s <;> simp [Val.isFalse]
  | arr xs => cases xs <;> simp [Val.isFalse]
  | obj kvs => cases kvs <;> simp [Val.isFalse]

theorem C07_numbers_are_true_like (n : N) : (Val.num n).isFalse = false := rfl

/-- ON THE CODE AS WRITTEN: `GenSlice.isFalse` is util.go's `isFalse` on decoded JSON, translated from /repo's
    source on every run (tools/gotolean: the clauses of its type switch; a float64 falls through both switches to
    `return false`).  It is false-like on exactly the five values of the truth definition. -/
theorem C07_translated_isFalse (v : Val N) :
    GenSlice.isFalse v = true ↔ (v = .null ∨ v = .bool false ∨ v = .str [] ∨ v = .arr [] ∨ v = .obj []) := by
  rw [gen_isFalse_eq]; exact C07_false_like_values v

theorem C07_translated_isFalse_is_the_models (v : Val N) : GenSlice.isFalse v = v.isFalse := gen_isFalse_eq v

/-- ON THE CODE AS WRITTEN: `GenSlice.compareVals` is the comparator clause of `Execute` (interpreter.go,
    `case ASTComparator:` after both operands are evaluated), translated statement by statement on every run.
    `==` / `!=` are deep equality and its negation on ALL values; the ordering comparators compare two numbers
    and are null as soon as one operand is not a number. -/
theorem C07_translated_comparators (l r : Val N) :
    GenSlice.compareVals .eq l r = .bool (Val.deepEq l r) ∧
    GenSlice.compareVals .ne l r = .bool (!Val.deepEq l r) ∧
    (∀ a b : N, l = .num a → r = .num b →
      GenSlice.compareVals .lt l r = .bool (NumOps.lt a b) ∧ GenSlice.compareVals .lte l r = .bool (NumOps.le a b) ∧
      GenSlice.compareVals .gt l r = .bool (NumOps.lt b a) ∧ GenSlice.compareVals .gte l r = .bool (NumOps.le b a)) ∧
    ((∀ a, l ≠ .num a) ∨ (∀ b, r ≠ .num b) →
      GenSlice.compareVals .lt l r = .null ∧ GenSlice.compareVals .lte l r = .null ∧
      GenSlice.compareVals .gt l r = .null ∧ GenSlice.compareVals .gte l r = .null) := by
  simp only [gen_compareVals_eq]
  refine ⟨by simp [compareVals], by simp [compareVals], ?_, ?_⟩
  · intro a b hl hr; subst hl; subst hr; simp [compareVals]
  · intro h
    cases l <;> cases r <;> simp [compareVals] <;> rcases h with h | h <;> first | exact absurd rfl (h _) | skip

theorem C07_translated_comparators_are_the_models (op : Cmp) (l r : Val N) :
    GenSlice.compareVals op l r = compareVals op l r := gen_compareVals_eq op l r

/-- `a || b`: the value of `a` when it is true-like — whatever `b` is, even an
    expression that would fail: `b` is not evaluated — and otherwise the
    outcome of `b`.  The result is an operand value, not a boolean. -/
theorem C07_or (ft : List FnEntry) (a b : Node N) (d va : Val N) (ha : eval ft a d = .ok va) :
    eval ft (.or a b) d = if va.isFalse then eval ft b d else .ok va := by
  simp only [eval, ha]

/-- `a && b`: the value of `a` when it is false-like (`b` not evaluated), otherwise the outcome of `b`. -/
theorem C07_and (ft : List FnEntry) (a b : Node N) (d va : Val N) (ha : eval ft a d = .ok va) :
    eval ft (.and a b) d = if va.isFalse then .ok va else eval ft b d := by
  simp only [eval, ha]

/-- `!a` is a boolean: true exactly when `a` is false-like. -/
theorem C07_not (ft : List FnEntry) (a : Node N) (d va : Val N) (ha : eval ft a d = .ok va) :
    eval ft (.not a) d = .ok (.bool va.isFalse) := by
  simp only [eval, ha]

/-- Comparators evaluate both operands and compareVals their values. -/
theorem C07_comparator (ft : List FnEntry) (op : Cmp) (a b : Node N) (d va vb : Val N)
    (ha : eval ft a d = .ok va) (hb : eval ft b d = .ok vb) :
    eval ft (.cmp op a b) d = .ok (compareVals op va vb) := by
  simp only [eval, ha, hb]

/-- `==` and `!=` are deep JSON equality over all types: `a == b` is the boolean
    that is true exactly when the two values are equal, `a != b` its negation. -/
theorem C07_eq_is_deep_equality [NumLaws N] (va vb : Val N) :
    ∃ r : Bool, compareVals .eq va vb = .bool r ∧ compareVals .ne va vb = .bool (!r) ∧ (r = true ↔ va = vb) :=
  ⟨va.deepEq vb, rfl, rfl, Val.deepEq_iff va vb⟩

/-- … hence never equal across types (e.g. the number 1 and the string "1"). -/
theorem C07_never_equal_across_types [NumLaws N] (n : N) (s : Bytes) (b : Bool) (xs : List (Val N)) (kvs : List (Bytes × Val N)) :
    compareVals .eq (.num n) (.str s) = .bool false ∧ compareVals .eq (.num n) (.bool b) = .bool false
    ∧ compareVals .eq (.null : Val N) (.bool false) = .bool false ∧ compareVals .eq (.str s) (.arr xs) = .bool false
    ∧ compareVals .eq (.arr xs) (.obj kvs) = .bool false ∧ compareVals .eq (.null : Val N) (.str []) = .bool false := by
  simp [compareVals, Val.deepEq]

/-- `<`, `<=`, `>`, `>=` compareVals two numbers numerically … -/
theorem C07_ordering_on_numbers (x y : N) :
    compareVals .lt (.num x) (.num y) = .bool (NumOps.lt x y) ∧ compareVals .lte (.num x) (.num y) = .bool (NumOps.le x y)
    ∧ compareVals .gt (.num x) (.num y) = .bool (NumOps.lt y x) ∧ compareVals .gte (.num x) (.num y) = .bool (NumOps.le y x) := by
  simp [compareVals]

/-- … and yield null when either operand is not a number. -/
theorem C07_ordering_on_non_numbers (op : Cmp) (hop : op ≠ .eq ∧ op ≠ .ne) (va vb : Val N)
    (h : (∀ x, va ≠ .num x) ∨ (∀ y, vb ≠ .num y)) : compareVals op va vb = .null := by
  cases op <;> simp at hop <;>
  (cases va <;> cases vb <;> simp [compareVals] <;>
    (rcases h with h | h <;> exact absurd rfl (h _)))

/-- With integers for numbers the order is the usual one (the laws are not vacuous). -/
example : compareVals .lt (.num (2 : Int)) (.num 10) = .bool true := by rfl
example : compareVals .eq (.num (1 : Int)) (.str [0x31]) = .bool false := by rfl
example : compareVals .eq (.obj [([0x78], (.null : Val Int))]) (.obj [([0x79], .null)]) = .bool false := by rfl

omit [NumOps N] in
/-- A filter keeps exactly the elements whose condition is true-like (then
    applies the right-hand side and drops nulls), in order. -/
theorem C07_filter_keeps_true_like (cond rhs : Val N → Res (Val N)) (cf rf : Val N → Val N) (xs : List (Val N))
    (hc : ∀ x ∈ xs, cond x = .ok (cf x)) (hr : ∀ x ∈ xs, rhs x = .ok (rf x)) :
    filterLoop cond rhs xs = .ok (dropNulls ((xs.filter (fun x => !(cf x).isFalse)).map rf)) := by
  induction xs with
  | nil => rfl
  | cons x xs ih =>
    have ih' := ih (fun y hy => hc y (by simp [hy])) (fun y hy => hr y (by simp [hy]))
    simp only [filterLoop, hc x (by simp), hr x (by simp), ih']
    by_cases hf : (cf x).isFalse
    · simp [hf]
    · simp only [hf, Bool.not_false, if_true, List.filter_cons, List.map_cons]
      cases hrx : rf x <;> simp [dropNulls]

end Jmes.Props
