/-
  Props.C13 — compiled expressions and parsers are history-independent;
  one-shot = compiled (DESIGN.md §7, C13).  Statements are about the API state
  machine `Api.step` (Jmes/Api.lean), in which a Go `Parser` object keeps its
  three fields between calls, a compiled expression keeps its AST, and
  documents are shared values.
-/
import Props.Tables
import Props.Writes
import Jmes.Api
namespace Jmes.Props
open Jmes Jmes.Api

theorem C13_generated_table_ok : TableOK Generated.table = true := generated_table_ok
theorem C13_generated_sigs_ok : SigsOK Generated.functionTable Spec.functionTable = true := generated_sigs_ok
theorem C13_generated_lex_ok : LexTablesOK Model.lexTables Spec.lexTables = true := generated_lex_ok

/-- The regenerated write-site facts: a Search writes neither to the compiled
    expression nor to package state, which is why the model may treat a compiled
    expression as an immutable value. -/
theorem C13_generated_writes_ok : WritesOK GeneratedWrites.writeSites = true := generated_writes_ok

variable {N : Type} [NumOps N]

/-- A Parser that has been used before — whatever its `expression`, `tokens`
    and `index` fields hold, e.g. after a failed parse — returns on every
    expression what a freshly created Parser returns. -/
theorem C13_parser_reuse (cfg : Config) (p : ParserObj) (expr : Bytes) :
    ((p.parse cfg expr).2 : Res (Node N)) = (({} : ParserObj).parse cfg expr).2 := by
  unfold ParserObj.parse
  cases Lexer.tokenize cfg.lex expr with
  | ok toks =>
    cases (Parser.parseExpression cfg.tbl (Parser.fuelFor toks.length) cfg.tbl.top ⟨[], toks⟩ : Res (Node N × Parser.PState)) with
    | ok r =>
      obtain ⟨e, st⟩ := r
      cases st.cur with
      | ok ty => by_cases hty : ty ≠ .eof <;> simp [hty]
      | err e => rfl
      | panic s => rfl
    | err e => rfl
    | panic s => rfl
  | err e => rfl
  | panic s => rfl

/-- The one-shot `Search` is `Compile` followed by the compiled expression's `Search`. -/
theorem C13_oneshot_is_compile_then_search (cfg : Config) (expr : Bytes) (doc : Val N) :
    search cfg expr doc = (match (compile cfg expr : Res (Node N)) with
      | .ok ast => searchCompiled cfg ast doc
      | .err e => .err e
      | .panic s => .panic s) := rfl

theorem lookup_setKey_ne {α} (k k' : Nat) (v : α) (l : List (Nat × α)) (h : k' ≠ k) :
    (setKey k v l).lookup k' = l.lookup k' := by
  have hb : (k' == k) = false := by simp [h]
  induction l with
  | nil => simp [setKey, List.lookup, hb]
  | cons kv rest ih =>
    obtain ⟨a, c⟩ := kv
    simp only [setKey]
    split
    · rename_i hk; subst hk; simp [List.lookup, hb]
    · simp only [List.lookup, ih]

theorem lookup_delKey_ne {α} (k k' : Nat) (l : List (Nat × α)) (h : k' ≠ k) :
    (delKey k l).lookup k' = l.lookup k' := by
  have hb : (k' == k) = false := by simp [h]
  induction l with
  | nil => rfl
  | cons kv rest ih =>
    obtain ⟨a, c⟩ := kv
    simp only [delKey]
    split
    · rename_i hk; subst hk; simp [List.lookup, hb]
    · simp only [List.lookup, ih]

/-- An operation that is not `compile h` / `doc d` leaves handle `h` and document `d` as they are. -/
theorem step_frame (cfg : Config) (s : State N) (op : Op N) (h d : Nat)
    (hc : ∀ e, op ≠ .compile h e) (hd : ∀ v, op ≠ .doc d v) :
    (step cfg s op).1.handles.lookup h = s.handles.lookup h ∧ (step cfg s op).1.docs.lookup d = s.docs.lookup d := by
  cases op with
  | doc id v =>
    have : d ≠ id := fun e => hd v (by rw [e])
    exact ⟨rfl, lookup_setKey_ne id d v s.docs this⟩
  | compile h' expr =>
    have : h ≠ h' := fun e => hc expr (by rw [e])
    simp only [step]
    cases (compile cfg expr : Res (Node N)) with
    | ok ast => exact ⟨lookup_setKey_ne h' h ast s.handles this, rfl⟩
    | err e => exact ⟨lookup_delKey_ne h' h s.handles this, rfl⟩
    | panic p => exact ⟨rfl, rfl⟩
  | searchC h' d' => simp only [step]; split <;> exact ⟨rfl, rfl⟩
  | search e d' => simp only [step]; split <;> exact ⟨rfl, rfl⟩
  | parse k e => exact ⟨rfl, rfl⟩

theorem searchC_congr (cfg : Config) (s1 s2 : State N) (h d : Nat)
    (hh : s1.handles.lookup h = s2.handles.lookup h) (hd : s1.docs.lookup d = s2.docs.lookup d) :
    (step cfg s1 (.searchC h d)).2 = (step cfg s2 (.searchC h d)).2 := by
  simp only [step, hh, hd]
  split <;> rfl

/-- History independence: after ANY sequence of operations that does not
    recompile handle `h` or replace document `d` — searches of other documents,
    failing searches, repetitions, one-shot searches, parser uses — searching
    `d` with `h` answers exactly what it answered before the sequence. -/
theorem C13_history_independent (cfg : Config) (s : State N) (ops : List (Op N)) (h d : Nat)
    (hops : ∀ op ∈ ops, (∀ e, op ≠ .compile h e) ∧ (∀ v, op ≠ .doc d v)) :
    (step cfg (run cfg s ops).1 (.searchC h d)).2 = (step cfg s (.searchC h d)).2 := by
  induction ops generalizing s with
  | nil => rfl
  | cons op ops ih =>
    have h1 := hops op (by simp)
    have hf := step_frame cfg s op h d h1.1 h1.2
    have := ih (step cfg s op).1 (fun o ho => hops o (by simp [ho]))
    simp only [run]
    rw [this]
    exact searchC_congr cfg _ _ h d hf.1 hf.2

/-- A compiled expression's answer is a function of its AST and the document
    alone, and equals the one-shot answer for the expression it was compiled from. -/
theorem C13_compiled_equals_oneshot (cfg : Config) (expr : Bytes) (ast : Node N) (doc : Val N)
    (hc : (compile cfg expr : Res (Node N)) = .ok ast) :
    searchCompiled cfg ast doc = search cfg expr doc := by
  simp only [search, hc]
  rfl

end Jmes.Props
