/-
  Props.C11 — evaluation errors propagate; never swallowed into null or a
  partial result (DESIGN.md §7, C11).

  `Evaluated ft root d sub d'` says: the specification requires, when `root`
  is evaluated against `d`, that `sub` be evaluated against `d'`.  The theorem:
  if that evaluation does not produce a value, neither does the whole.
-/
import Props.Tables
import Proofs.ErrFlow
import Jmes.Interp
import Proofs.SortKeys
namespace Jmes.Props
open Jmes Jmes.Interp

theorem C11_generated_table_ok : TableOK Generated.table = true := generated_table_ok
theorem C11_generated_sigs_ok : SigsOK Generated.functionTable Spec.functionTable = true := generated_sigs_ok
theorem C11_generated_lex_ok : LexTablesOK Model.lexTables Spec.lexTables = true := generated_lex_ok

/-- The regenerated error-flow facts (tools/errflow, go/ssa): at every call site of the package whose callee
    returns an error, the error is returned to the caller (as it is, or replaced by another error), except at
    the sites `Spec.allowed` lists (the sorters' `Less`, `to_number`'s ParseFloat, in-memory buffer writes,
    MustCompile's panic, the parser's token alternatives). -/
theorem C11_generated_errflow_ok : Spec.ErrFlowOK GeneratedErrFlow.sites = true := generated_errflow_ok

theorem C11_errors_are_returned_at_every_call_site (s : GeneratedErrFlow.Site) (h : s ∈ GeneratedErrFlow.sites) :
    s.status = .propagated ∨ s.status = .replaced ∨ Spec.allowed s = true := errflow_site s h

variable {N : Type} [NumOps N]

/-- Which sub-expressions must be evaluated, and against what. -/
inductive Evaluated (ft : List FnEntry) : Node N → Val N → Node N → Val N → Prop where
  | here (n : Node N) (d : Val N) : Evaluated ft n d n d
  -- comparators: both operands
  | cmpL {op l r d s d'} : Evaluated ft l d s d' → Evaluated ft (.cmp op l r) d s d'
  | cmpR {op l r d s d'} : Evaluated ft r d s d' → Evaluated ft (.cmp op l r) d s d'
  -- || and &&: the left operand always, the right one only when needed
  | orL {l r d s d'} : Evaluated ft l d s d' → Evaluated ft (.or l r) d s d'
  | orR {l r d s d' m} : eval ft l d = .ok m → m.isFalse = true → Evaluated ft r d s d' → Evaluated ft (.or l r) d s d'
  | andL {l r d s d'} : Evaluated ft l d s d' → Evaluated ft (.and l r) d s d'
  | andR {l r d s d' m} : eval ft l d = .ok m → m.isFalse = false → Evaluated ft r d s d' → Evaluated ft (.and l r) d s d'
  | not {e d s d'} : Evaluated ft e d s d' → Evaluated ft (.not e) d s d'
  -- sequencing: the left side against d, the right side against its value
  | pipeL {l r d s d'} : Evaluated ft l d s d' → Evaluated ft (.pipe l r) d s d'
  | pipeR {l r d s d' v} : eval ft l d = .ok v → Evaluated ft r v s d' → Evaluated ft (.pipe l r) d s d'
  | subL {l r d s d'} : Evaluated ft l d s d' → Evaluated ft (.sub l r) d s d'
  | subR {l r d s d' v} : eval ft l d = .ok v → Evaluated ft r v s d' → Evaluated ft (.sub l r) d s d'
  | idxL {l r d s d'} : Evaluated ft l d s d' → Evaluated ft (.indexExpr l r) d s d'
  | idxR {l r d s d' v} : eval ft l d = .ok v → Evaluated ft r v s d' → Evaluated ft (.indexExpr l r) d s d'
  -- projections: the left side; the right side once per element of a matching left value
  | projL {l r d s d'} : Evaluated ft l d s d' → Evaluated ft (.proj l r) d s d'
  | projR {l r d s d' xs x} : eval ft l d = .ok (.arr xs) → x ∈ xs → Evaluated ft r x s d' → Evaluated ft (.proj l r) d s d'
  | vprojL {l r d s d'} : Evaluated ft l d s d' → Evaluated ft (.valueProj l r) d s d'
  | vprojR {l r d s d' kvs kv} : eval ft l d = .ok (.obj kvs) → kv ∈ kvs → Evaluated ft r kv.2 s d' →
      Evaluated ft (.valueProj l r) d s d'
  | flatten {e d s d'} : Evaluated ft e d s d' → Evaluated ft (.flatten e) d s d'
  | filterL {l r c d s d'} : Evaluated ft l d s d' → Evaluated ft (.filterProj l r c) d s d'
  | filterC {l r c d s d' xs x} : eval ft l d = .ok (.arr xs) → x ∈ xs → Evaluated ft c x s d' →
      Evaluated ft (.filterProj l r c) d s d'
  | filterR {l r c d s d' xs x cv} : eval ft l d = .ok (.arr xs) → x ∈ xs → eval ft c x = .ok cv → cv.isFalse = false →
      Evaluated ft r x s d' → Evaluated ft (.filterProj l r c) d s d'
  -- multi-select: every member, unless the current node is null
  | listM {xs d s d' x} : d ≠ .null → x ∈ xs → Evaluated ft x d s d' → Evaluated ft (.msList xs) d s d'
  | hashM {kvs d s d' kv} : d ≠ .null → kv ∈ kvs → Evaluated ft kv.2 d s d' → Evaluated ft (.msHash kvs) d s d'
  -- every (non-reference) function argument
  | arg {name args d s d' x} : (false, x) ∈ args → Evaluated ft x d s d' → Evaluated ft (.call name args) d s d'

/-- "does not produce a value" -/
def Fails {α} (r : Res α) : Prop := ∀ v, r ≠ .ok v

theorem fails_of_err {α} (e : Err) : Fails (.err e : Res α) := fun _ h => by cases h

omit [NumOps N] in
theorem projectLoop_fails (f : Val N → Res (Val N)) (xs : List (Val N)) (x : Val N) (hx : x ∈ xs) (hf : Fails (f x)) :
    Fails (projectLoop f xs) := by
  induction xs with
  | nil => cases hx
  | cons y ys ih =>
    intro zs
    rcases List.mem_cons.mp hx with rfl | hmem
    · simp only [projectLoop]
      cases hfx : f x with
      | ok v => exact absurd hfx (hf v)
      | err e => simp
      | panic p => simp
    · simp only [projectLoop]
      cases f y with
      | ok v =>
        simp only []
        cases hp : projectLoop f ys with
        | ok ws => exact absurd hp (ih hmem ws)
        | err e => simp
        | panic p => simp
      | err e => simp
      | panic p => simp

omit [NumOps N] in
theorem filterLoop_fails_cond (c r : Val N → Res (Val N)) (xs : List (Val N)) (x : Val N) (hx : x ∈ xs) (hf : Fails (c x)) :
    Fails (filterLoop c r xs) := by
  induction xs with
  | nil => cases hx
  | cons y ys ih =>
    intro zs
    simp only [filterLoop]
    rcases List.mem_cons.mp hx with rfl | hmem
    · cases hfx : c x with
      | ok v => exact absurd hfx (hf v)
      | err e => simp
      | panic p => simp
    · cases c y with
      | ok cv =>
        simp only []
        split
        · cases r y with
          | ok v =>
            simp only []
            cases hp : filterLoop c r ys with
            | ok ws => exact absurd hp (ih hmem ws)
            | err e => simp
            | panic p => simp
          | err e => simp
          | panic p => simp
        · exact ih hmem zs
      | err e => simp
      | panic p => simp

omit [NumOps N] in
theorem filterLoop_fails_rhs (c r : Val N → Res (Val N)) (xs : List (Val N)) (x cv : Val N) (hx : x ∈ xs)
    (hc : c x = .ok cv) (hcv : cv.isFalse = false) (hf : Fails (r x)) : Fails (filterLoop c r xs) := by
  induction xs with
  | nil => cases hx
  | cons y ys ih =>
    intro zs
    simp only [filterLoop]
    rcases List.mem_cons.mp hx with rfl | hmem
    · simp only [hc, hcv, Bool.not_false, if_true]
      cases hfx : r x with
      | ok v => exact absurd hfx (hf v)
      | err e => simp
      | panic p => simp
    · cases c y with
      | ok cv' =>
        simp only []
        split
        · cases r y with
          | ok v =>
            simp only []
            cases hp : filterLoop c r ys with
            | ok ws => exact absurd hp (ih hmem ws)
            | err e => simp
            | panic p => simp
          | err e => simp
          | panic p => simp
        · exact ih hmem zs
      | err e => simp
      | panic p => simp

theorem evalList_fails (ft : List FnEntry) (xs : List (Node N)) (d : Val N) (x : Node N) (hx : x ∈ xs)
    (hf : Fails (eval ft x d)) : Fails (evalList ft xs d) := by
  induction xs with
  | nil => cases hx
  | cons y ys ih =>
    intro zs
    simp only [evalList]
    rcases List.mem_cons.mp hx with rfl | hmem
    · cases hfx : eval ft x d with
      | ok v => exact absurd hfx (hf v)
      | err e => simp
      | panic p => simp
    · cases eval ft y d with
      | ok v =>
        simp only []
        cases hp : evalList ft ys d with
        | ok ws => exact absurd hp (ih hmem ws)
        | err e => simp
        | panic p => simp
      | err e => simp
      | panic p => simp

theorem evalKVs_fails (ft : List FnEntry) (xs : List (Bytes × Node N)) (d : Val N) (kv : Bytes × Node N) (hx : kv ∈ xs)
    (hf : Fails (eval ft kv.2 d)) : Fails (evalKVs ft xs d) := by
  induction xs with
  | nil => cases hx
  | cons y ys ih =>
    intro zs
    obtain ⟨yk, yv⟩ := y
    simp only [evalKVs]
    rcases List.mem_cons.mp hx with rfl | hmem
    · cases hfx : eval ft yv d with
      | ok v => exact absurd hfx (hf v)
      | err e => simp
      | panic p => simp
    · cases eval ft yv d with
      | ok v =>
        simp only []
        cases hp : evalKVs ft ys d with
        | ok ws => exact absurd hp (ih hmem ws)
        | err e => simp
        | panic p => simp
      | err e => simp
      | panic p => simp

theorem evalArgs_fails (ft : List FnEntry) (xs : List (Bool × Node N)) (d : Val N) (x : Node N) (hx : (false, x) ∈ xs)
    (hf : Fails (eval ft x d)) : Fails (evalArgs ft xs d) := by
  induction xs with
  | nil => cases hx
  | cons y ys ih =>
    intro zs
    obtain ⟨yb, yv⟩ := y
    rcases List.mem_cons.mp hx with heq | hmem
    · cases heq
      simp only [evalArgs]
      cases hfx : eval ft x d with
      | ok v => exact absurd hfx (hf v)
      | err e => simp
      | panic p => simp
    · cases yb
      · simp only [evalArgs]
        cases eval ft yv d with
        | ok v =>
          simp only []
          cases hp : evalArgs ft ys d with
          | ok ws => exact absurd hp (ih hmem ws)
          | err e => simp
          | panic p => simp
        | err e => simp
        | panic p => simp
      · simp only [evalArgs]
        cases hp : evalArgs ft ys d with
        | ok ws => exact absurd hp (ih hmem ws)
        | err e => simp
        | panic p => simp

theorem fails_bind1 {α β} (r : Res α) (k : α → Res β) (hf : Fails r) :
    Fails (match r with | .ok v => k v | .err e => .err e | .panic p => .panic p) := by
  intro v
  cases h : r with
  | ok lv => exact absurd h (hf lv)
  | err e => simp
  | panic p => simp

theorem fails_cmpL (ft : List FnEntry) (op : Cmp) (l r : Node N) (d : Val N) (hf : Fails (eval ft l d)) :
    Fails (eval ft (.cmp op l r) d) := by
  intro v; simp only [eval]
  cases h : eval ft l d with
  | ok lv => exact absurd h (hf lv)
  | err e => simp
  | panic p => simp

theorem fails_cmpR (ft : List FnEntry) (op : Cmp) (l r : Node N) (d : Val N) (hf : Fails (eval ft r d)) :
    Fails (eval ft (.cmp op l r) d) := by
  intro v; simp only [eval]
  cases eval ft l d with
  | ok lv =>
    simp only []
    cases h : eval ft r d with
    | ok rv => exact absurd h (hf rv)
    | err e => simp
    | panic p => simp
  | err e => simp
  | panic p => simp

/-- The left operand of every binary / postfix form. -/
theorem fails_left (ft : List FnEntry) (l : Node N) (d : Val N) (hf : Fails (eval ft l d)) (r c : Node N) :
    Fails (eval ft (.or l r) d) ∧ Fails (eval ft (.and l r) d) ∧ Fails (eval ft (.not l) d) ∧
    Fails (eval ft (.pipe l r) d) ∧ Fails (eval ft (.sub l r) d) ∧ Fails (eval ft (.indexExpr l r) d) ∧
    Fails (eval ft (.proj l r) d) ∧ Fails (eval ft (.valueProj l r) d) ∧ Fails (eval ft (.flatten l) d) ∧
    Fails (eval ft (.filterProj l r c) d) := by
  refine ⟨?_, ?_, ?_, ?_, ?_, ?_, ?_, ?_, ?_, ?_⟩ <;>
  (intro v; simp only [eval]
   cases h : eval ft l d with
   | ok lv => exact absurd h (hf lv)
   | err e => simp
   | panic p => simp)

theorem fails_projR (ft : List FnEntry) (l r : Node N) (d : Val N) (xs : List (Val N)) (x : Val N)
    (hl : eval ft l d = .ok (.arr xs)) (hx : x ∈ xs) (hf : Fails (eval ft r x)) : Fails (eval ft (.proj l r) d) := by
  intro v; simp only [eval, hl]
  have := projectLoop_fails (eval ft r) xs x hx hf
  cases h : projectLoop (eval ft r) xs with
  | ok ys => exact absurd h (this ys)
  | err e => simp
  | panic p => simp

theorem fails_vprojR (ft : List FnEntry) (l r : Node N) (d : Val N) (kvs : List (Bytes × Val N)) (kv : Bytes × Val N)
    (hl : eval ft l d = .ok (.obj kvs)) (hx : kv ∈ kvs) (hf : Fails (eval ft r kv.2)) :
    Fails (eval ft (.valueProj l r) d) := by
  intro v; simp only [eval, hl]
  have := projectLoop_fails (eval ft r) (kvs.map (·.2)) kv.2 (List.mem_map.mpr ⟨kv, hx, rfl⟩) hf
  cases h : projectLoop (eval ft r) (kvs.map (·.2)) with
  | ok ys => exact absurd h (this ys)
  | err e => simp
  | panic p => simp

theorem fails_filterC (ft : List FnEntry) (l r c : Node N) (d : Val N) (xs : List (Val N)) (x : Val N)
    (hl : eval ft l d = .ok (.arr xs)) (hx : x ∈ xs) (hf : Fails (eval ft c x)) :
    Fails (eval ft (.filterProj l r c) d) := by
  intro v; simp only [eval, hl]
  have := filterLoop_fails_cond (eval ft c) (eval ft r) xs x hx hf
  cases h : filterLoop (eval ft c) (eval ft r) xs with
  | ok ys => exact absurd h (this ys)
  | err e => simp
  | panic p => simp

theorem fails_filterR (ft : List FnEntry) (l r c : Node N) (d : Val N) (xs : List (Val N)) (x cv : Val N)
    (hl : eval ft l d = .ok (.arr xs)) (hx : x ∈ xs) (hc : eval ft c x = .ok cv) (hcv : cv.isFalse = false)
    (hf : Fails (eval ft r x)) : Fails (eval ft (.filterProj l r c) d) := by
  intro v; simp only [eval, hl]
  have := filterLoop_fails_rhs (eval ft c) (eval ft r) xs x cv hx hc hcv hf
  cases h : filterLoop (eval ft c) (eval ft r) xs with
  | ok ys => exact absurd h (this ys)
  | err e => simp
  | panic p => simp

theorem fails_listM (ft : List FnEntry) (xs : List (Node N)) (d : Val N) (x : Node N) (hd : d ≠ .null) (hx : x ∈ xs)
    (hf : Fails (eval ft x d)) : Fails (eval ft (.msList xs) d) := by
  intro v
  have := evalList_fails ft xs d x hx hf
  cases d with
  | null => exact absurd rfl hd
  | _ =>
    simp only [eval]
    cases h : evalList ft xs _ with
    | ok ys => exact absurd h (this ys)
    | err e => simp
    | panic p => simp

theorem fails_hashM (ft : List FnEntry) (kvs : List (Bytes × Node N)) (d : Val N) (kv : Bytes × Node N) (hd : d ≠ .null)
    (hx : kv ∈ kvs) (hf : Fails (eval ft kv.2 d)) : Fails (eval ft (.msHash kvs) d) := by
  intro v
  have := evalKVs_fails ft kvs d kv hx hf
  cases d with
  | null => exact absurd rfl hd
  | _ =>
    simp only [eval]
    cases h : evalKVs ft kvs _ with
    | ok ys => exact absurd h (this ys)
    | err e => simp
    | panic p => simp

theorem fails_arg (ft : List FnEntry) (name : Bytes) (args : List (Bool × Node N)) (d : Val N) (x : Node N)
    (hx : (false, x) ∈ args) (hf : Fails (eval ft x d)) : Fails (eval ft (.call name args) d) := by
  intro v
  have := evalArgs_fails ft args d x hx hf
  simp only [eval]
  cases h : evalArgs ft args d with
  | ok ys => exact absurd h (this ys)
  | err e => simp
  | panic p => simp

/-- Main theorem: a sub-expression that the specification requires to be
    evaluated and that does not produce a value makes the whole Search fail —
    the error is never turned into null nor dropped from a collection. -/
theorem C11_errors_propagate (ft : List FnEntry) (root sub : Node N) (d d' : Val N)
    (hev : Evaluated ft root d sub d') (hf : Fails (eval ft sub d')) : Fails (eval ft root d) := by
  induction hev with
  | here n d => exact hf
  | cmpL _ ih => exact fails_cmpL ft _ _ _ _ (ih hf)
  | cmpR _ ih => exact fails_cmpR ft _ _ _ _ (ih hf)
  | orL _ ih => exact (fails_left ft _ _ (ih hf) _ .identity).1
  | orR hl hm _ ih => intro v; simp only [eval, hl, hm, if_true]; exact ih hf v
  | andL _ ih => exact (fails_left ft _ _ (ih hf) _ .identity).2.1
  | andR hl hm _ ih => intro v; simp only [eval, hl, hm, Bool.false_eq_true, if_false]; exact ih hf v
  | not _ ih => exact (fails_left ft _ _ (ih hf) .identity .identity).2.2.1
  | pipeL _ ih => exact (fails_left ft _ _ (ih hf) _ .identity).2.2.2.1
  | pipeR hl _ ih => intro v; simp only [eval, hl]; exact ih hf v
  | subL _ ih => exact (fails_left ft _ _ (ih hf) _ .identity).2.2.2.2.1
  | subR hl _ ih => intro v; simp only [eval, hl]; exact ih hf v
  | idxL _ ih => exact (fails_left ft _ _ (ih hf) _ .identity).2.2.2.2.2.1
  | idxR hl _ ih => intro v; simp only [eval, hl]; exact ih hf v
  | projL _ ih => exact (fails_left ft _ _ (ih hf) _ .identity).2.2.2.2.2.2.1
  | projR hl hx _ ih => exact fails_projR ft _ _ _ _ _ hl hx (ih hf)
  | vprojL _ ih => exact (fails_left ft _ _ (ih hf) _ .identity).2.2.2.2.2.2.2.1
  | vprojR hl hx _ ih => exact fails_vprojR ft _ _ _ _ _ hl hx (ih hf)
  | flatten _ ih => exact (fails_left ft _ _ (ih hf) .identity .identity).2.2.2.2.2.2.2.2.1
  | filterL _ ih => exact (fails_left ft _ _ (ih hf) _ _).2.2.2.2.2.2.2.2.2
  | filterC hl hx _ ih => exact fails_filterC ft _ _ _ _ _ _ hl hx (ih hf)
  | filterR hl hx hc hcv _ ih => exact fails_filterR ft _ _ _ _ _ _ _ hl hx hc hcv (ih hf)
  | listM hd hx _ ih => exact fails_listM ft _ _ _ hd hx (ih hf)
  | hashM hd hx _ ih => exact fails_hashM ft _ _ _ hd hx (ih hf)
  | arg hx _ ih => exact fails_arg ft _ _ _ _ hx (ih hf)

/-- With C05 (no panics) "fails" means "returns an error". -/
theorem C11_fails_is_error_when_no_panic {α} (r : Res α) (hf : Fails r) (hp : r.isPanic = false) : ∃ e, r = .err e := by
  cases r with
  | ok v => exact absurd rfl (hf v)
  | err e => exact ⟨e, rfl⟩
  | panic p => simp [Res.isPanic] at hp

/-- By-expression functions: a key/body expression that fails on some element
    makes `map` fail (the other by-expression functions: see C10). -/
theorem C11_map_body_error_propagates (f : Val N → Res (Val N)) (xs : List (Val N)) (x : Val N) (hx : x ∈ xs)
    (hf : Fails (f x)) : Fails (Fn.mapLoop f xs) := by
  induction xs with
  | nil => cases hx
  | cons y ys ih =>
    intro zs
    simp only [Fn.mapLoop]
    rcases List.mem_cons.mp hx with rfl | hmem
    · cases hfx : f x with
      | ok v => exact absurd hfx (hf v)
      | err e => simp
      | panic p => simp
    · cases f y with
      | ok v =>
        simp only []
        cases hp : Fn.mapLoop f ys with
        | ok ws => exact absurd hp (ih hmem ws)
        | err e => simp
        | panic p => simp
      | err e => simp
      | panic p => simp

/-! Non-vacuity: `abs("a")[]`, the swallowed-error shape, is covered. -/
example (ft : List FnEntry) (d : Val Int) :
    Evaluated ft (.proj (.flatten (.call [0x61] [(false, .literal (.str [0x61]))])) .identity) d
      (.call [0x61] [(false, .literal (.str [0x61]))]) d :=
  .projL (.flatten (.here _ _))


/-- `sort_by` over an array of ANY length: a key expression that fails on ANY element — wherever it sits, however many elements
    the sorting routine would compare before reaching it — makes the call fail (given a number key first and no panicking key). -/
theorem C11_sort_by_key_error_any_position {N : Type} [NumOps N] (f : Val N → Res (Val N)) (x : Val N) (rest : List (Val N)) (n : N) (y : Val N) (e : Err)
    (h0 : f x = .ok (.num n)) (hy : y ∈ rest) (h1 : f y = .err e)
    (hp : ∀ z ∈ rest, ∀ p, f z ≠ .panic p) : ∃ e', Fn.sortBy f (x :: rest) = .err e' := by
  have hnone := Fn.keysNum_none_of_key_error f rest y e hy h1 hp
  cases rest with
  | nil => cases hy
  | cons r rs => simp only [Fn.sortBy, h0, hnone]; exact ⟨_, rfl⟩

end Jmes.Props
