/-
  Props.C09 — each built-in function returns the value its specification
  defines (DESIGN.md §7, C09).  Laws proved for the model's handlers (the
  table wiring name → handler is `generated_sigs_ok`); the tie of each handler
  to the code is the correspondence stream `fn`.
-/
import Props.Tables
import Proofs.FunctionsJson
import Proofs.JsonValue
import Proofs.Utf8Order
import Proofs.StrOrder
import Proofs.FunctionsMore
namespace Jmes.Props
open Jmes Jmes.Fn

theorem C09_generated_table_ok : TableOK Generated.table = true := generated_table_ok
/-- every name is wired to its own handler ("max" ↦ jpfMax, …) with the specified signature -/
theorem C09_generated_sigs_ok : SigsOK Generated.functionTable Spec.functionTable = true := generated_sigs_ok
theorem C09_generated_lex_ok : LexTablesOK Model.lexTables Spec.lexTables = true := generated_lex_ok

variable {N : Type} [NumOps N]

/-! ### sort / sort_by: ascending, a permutation, stable -/

def leNum (a b : N) : Bool := !NumOps.lt b a

theorem leNum_total [NumLaws N] (a b : N) : (leNum a b || leNum b a) = true := by
  unfold leNum
  cases h1 : NumOps.lt b a <;> cases h2 : NumOps.lt a b <;> simp
  have := NumLaws.lt_trans a b a h2 h1
  rw [NumLaws.lt_irrefl] at this
  cases this

theorem leNum_trans [NumLaws N] (a b c : N) (h1 : leNum a b = true) (h2 : leNum b c = true) : leNum a c = true := by
  unfold leNum at *
  simp only [Bool.not_eq_true'] at *
  cases hca : NumOps.lt c a
  · rfl
  · exfalso
    rcases NumLaws.lt_total a b with hab | hab | hab
    · have := NumLaws.lt_trans c a b hca hab; rw [h2] at this; cases this
    · subst hab; rw [h2] at hca; cases hca
    · rw [h1] at hab; cases hab

/-- `sort` on numbers: the result is a permutation of the input, ascending
    (no element is greater than a later one), and stable (elements that are
    already in order keep their relative order — `<+` is the sublist relation). -/
theorem C09_sort_numbers [NumLaws N] (xs : List N) :
    (List.mergeSort xs leNum).Perm xs ∧ (List.mergeSort xs leNum).Pairwise (fun a b => NumOps.lt b a = false) ∧
    ∀ ys : List N, ys.Pairwise (fun a b => leNum a b = true) → ys.Sublist xs → ys.Sublist (List.mergeSort xs leNum) := by
  refine ⟨List.mergeSort_perm xs leNum, ?_, ?_⟩
  · have := List.pairwise_mergeSort (le := leNum) (fun a b c => leNum_trans a b c) (fun a b => leNum_total a b) xs
    exact this.imp (fun h => by simpa [leNum] using h)
  · intro ys hp hs
    exact List.sublist_mergeSort (le := leNum) (fun a b c => leNum_trans a b c) (fun a b => leNum_total a b) hp hs

/-- The handler is that sort. -/
theorem C09_sort_handler (xs : List (Val N)) (ns : List N) (h : allNums xs = some ns) :
    handle .sort false [.val (.arr xs)] = .ok (.arr ((List.mergeSort ns leNum).map .num)) := by
  simp only [handle, Bool.false_eq_true, if_false, toArrayNum, h]
  rfl

def leKey (a b : N × Val N) : Bool := !NumOps.lt b.1 a.1

/-- `sort_by` with number keys: a stable ascending sort by key — a permutation
    of the (key, element) pairs, ascending in the key, preserving the order of
    elements whose keys are already in order (in particular of equal keys). -/
theorem C09_sort_by_is_stable_sort [NumLaws N] (ps : List (N × Val N)) :
    (List.mergeSort ps leKey).Perm ps ∧ (List.mergeSort ps leKey).Pairwise (fun a b => NumOps.lt b.1 a.1 = false) ∧
    ∀ a b, leKey a b = true → [a, b].Sublist ps → [a, b].Sublist (List.mergeSort ps leKey) := by
  have ht : ∀ a b c : N × Val N, leKey a b = true → leKey b c = true → leKey a c = true :=
    fun a b c => leNum_trans a.1 b.1 c.1
  have htot : ∀ a b : N × Val N, (leKey a b || leKey b a) = true := fun a b => leNum_total a.1 b.1
  refine ⟨List.mergeSort_perm ps leKey, ?_, ?_⟩
  · exact (List.pairwise_mergeSort (le := leKey) ht htot ps).imp (fun h => by simpa [leKey] using h)
  · intro a b hab hs
    exact List.pair_sublist_mergeSort (le := leKey) ht htot hab hs

/-- … and the keys are evaluated by applying the expression reference to each element. -/
theorem C09_sort_by_handler (f : Val N → Res (Val N)) (x y : Val N) (rest : List (Val N)) (k0 : N) (ks : List (N × Val N))
    (h0 : f x = .ok (.num k0)) (hk : keysNum f (y :: rest) = .ok (some ks)) :
    sortBy f (x :: y :: rest) = .ok (.arr ((List.mergeSort ((k0, x) :: ks) leKey).map (·.2))) ∧
    ks.map (·.2) = y :: rest := by
  refine ⟨?_, keysNum_snd f _ ks hk⟩
  simp only [sortBy, h0, hk]
  rfl

/-! ### max / min -/

theorem maxNum_ge [NumLaws N] : ∀ (best : N) (xs : List N), NumOps.lt (maxNum best xs) best = false ∧
    ∀ x ∈ xs, NumOps.lt (maxNum best xs) x = false
  | best, [] => ⟨NumLaws.lt_irrefl best, by intro x hx; cases hx⟩
  | best, y :: ys => by
    simp only [maxNum]
    have ih := maxNum_ge (if NumOps.lt best y then y else best) ys
    have key : ∀ m : N, NumOps.lt m (if NumOps.lt best y then y else best) = false → NumOps.lt m best = false ∧ NumOps.lt m y = false := by
      intro m hm
      by_cases hb : NumOps.lt best y = true
      · simp only [hb, if_true] at hm
        refine ⟨?_, hm⟩
        cases h : NumOps.lt m best
        · rfl
        · have := NumLaws.lt_trans m best y h hb; rw [hm] at this; cases this
      · have hb' : NumOps.lt best y = false := by simpa using hb
        simp only [hb', Bool.false_eq_true, if_false] at hm
        refine ⟨hm, ?_⟩
        cases h : NumOps.lt m y
        · rfl
        · rcases NumLaws.lt_total best y with h1 | h1 | h1
          · rw [hb'] at h1; cases h1
          · subst h1; rw [hm] at h; cases h
          · have := NumLaws.lt_trans m y best h h1; rw [hm] at this; cases this
    obtain ⟨h1, h2⟩ := key _ ih.1
    refine ⟨h1, ?_⟩
    intro x hx
    rcases List.mem_cons.mp hx with rfl | hx'
    · exact h2
    · exact ih.2 x hx'

/-- `max` on numbers returns an element of the array that no element exceeds; on an empty array, null. -/
theorem C09_max_numbers [NumLaws N] (x : N) (xs : List N) :
    maxNum x xs ∈ x :: xs ∧ ∀ y ∈ x :: xs, NumOps.lt (maxNum x xs) y = false := by
  refine ⟨maxNum_mem x xs, ?_⟩
  intro y hy
  rcases List.mem_cons.mp hy with rfl | hy'
  · exact (maxNum_ge y xs).1
  · exact (maxNum_ge x xs).2 y hy'

theorem C09_max_min_empty : handle (N := N) .max false [.val (.arr [])] = .ok .null ∧
    handle (N := N) .min false [.val (.arr [])] = .ok .null ∧ extremeBy (N := N) (fun v => .ok v) true [] = .ok .null := by
  simp [handle, toArrayNum, allNums, extremeBy]

/-! ### max_by: the FIRST extremal element -/

/-- Invariant of the max_by loop with number keys: the result is the current
    best unless a later element has a strictly greater key; ties keep the earlier element. -/
theorem byLoopNum_first_max [NumLaws N] (f : Val N → Res (Val N)) (key : Val N → N) :
    ∀ (xs : List (Val N)) (bv : N) (bi r : Val N), (∀ x ∈ xs, f x = .ok (.num (key x))) →
    byLoopNum f (fun cur best => NumOps.lt best cur) bv bi xs = .ok r →
    (r = bi ∧ ∀ x ∈ xs, NumOps.lt bv (key x) = false) ∨
    (∃ pre post, xs = pre ++ r :: post ∧ NumOps.lt bv (key r) = true ∧
      (∀ x ∈ pre, NumOps.lt (key x) (key r) = true ∨ NumOps.lt bv (key r) = true ∧ NumOps.lt (key r) (key x) = false ∧ NumOps.lt (key x) (key r) = true) ∧
      ∀ x ∈ post, NumOps.lt (key r) (key x) = false)
  | [], bv, bi, r, _, h => by
    simp [byLoopNum] at h
    exact Or.inl ⟨h.symm, by intro x hx; cases hx⟩
  | y :: ys, bv, bi, r, hf, h => by
    simp only [byLoopNum, hf y (by simp)] at h
    have hf' : ∀ x ∈ ys, f x = .ok (.num (key x)) := fun x hx => hf x (by simp [hx])
    by_cases hb : NumOps.lt bv (key y) = true
    · simp only [hb, if_true] at h
      rcases byLoopNum_first_max f key ys (key y) y r hf' h with ⟨rfl, hall⟩ | ⟨pre, post, hxs, hlt, hpre, hpost⟩
      · refine Or.inr ⟨[], ys, rfl, hb, ?_, hall⟩
        intro x hx; cases hx
      · refine Or.inr ⟨y :: pre, post, by simp [hxs], NumLaws.lt_trans _ _ _ hb hlt, ?_, hpost⟩
        intro x hx
        rcases List.mem_cons.mp hx with rfl | hx'
        · exact Or.inl hlt
        · rcases hpre x hx' with h1 | ⟨_, h2, h3⟩
          · exact Or.inl h1
          · exact Or.inl h3
    · have hb' : NumOps.lt bv (key y) = false := by simpa using hb
      simp only [hb', Bool.false_eq_true, if_false] at h
      rcases byLoopNum_first_max f key ys bv bi r hf' h with ⟨rfl, hall⟩ | ⟨pre, post, hxs, hlt, hpre, hpost⟩
      · exact Or.inl ⟨rfl, by
          intro x hx
          rcases List.mem_cons.mp hx with rfl | hx'
          · exact hb'
          · exact hall x hx'⟩
      · refine Or.inr ⟨y :: pre, post, by simp [hxs], hlt, ?_, hpost⟩
        intro x hx
        rcases List.mem_cons.mp hx with rfl | hx'
        · -- key y ≤ bv < key r
          left
          rcases NumLaws.lt_total bv (key x) with h1 | h1 | h1
          · rw [hb'] at h1; cases h1
          · rw [← h1]; exact hlt
          · exact NumLaws.lt_trans _ _ _ h1 hlt
        · exact hpre x hx'

/-- `max_by`: the result is an element with maximal key, and it is the FIRST
    such element: every earlier element has a strictly smaller key. -/
theorem C09_max_by_first_maximal [NumLaws N] (f : Val N → Res (Val N)) (key : Val N → N) (x : Val N) (xs : List (Val N)) (r : Val N)
    (hf : ∀ y ∈ x :: xs, f y = .ok (.num (key y))) (h : extremeBy f true (x :: xs) = .ok r) :
    ∃ pre post, x :: xs = pre ++ r :: post ∧ (∀ y ∈ pre, NumOps.lt (key y) (key r) = true) ∧
      ∀ y ∈ post, NumOps.lt (key r) (key y) = false := by
  simp only [extremeBy, hf x (by simp), if_true] at h
  rcases byLoopNum_first_max f key xs (key x) x r (fun y hy => hf y (by simp [hy])) h with ⟨rfl, hall⟩ | ⟨pre, post, hxs, hlt, hpre, hpost⟩
  · refine ⟨[], xs, rfl, ?_, hall⟩
    intro y hy; cases hy
  · refine ⟨x :: pre, post, by simp [hxs], ?_, hpost⟩
    intro y hy
    rcases List.mem_cons.mp hy with rfl | hy'
    · exact hlt
    · rcases hpre y hy' with h1 | ⟨_, _, h3⟩
      · exact h1
      · exact h3

/-! ### merge: later arguments win -/

omit [NumOps N] in
theorem lookup_insert_same (k : Bytes) (v : Val N) : ∀ l : List (Bytes × Val N), Val.lookup k (Val.insert k v l) = some v
  | [] => by simp [Val.insert, Val.lookup]
  | (k', v') :: rest => by
    simp only [Val.insert]
    split
    · simp [Val.lookup]
    · rename_i hne
      split
      · simp [Val.lookup]
      · simp only [Val.lookup, hne, if_false]
        exact lookup_insert_same k v rest

omit [NumOps N] in
theorem lookup_insert_other (k j : Bytes) (v : Val N) (hjk : j ≠ k) :
    ∀ l : List (Bytes × Val N), Val.lookup j (Val.insert k v l) = Val.lookup j l
  | [] => by simp [Val.insert, Val.lookup, Ne.symm hjk]
  | (k', v') :: rest => by
    simp only [Val.insert]
    split
    · rename_i hk; subst hk; simp [Val.lookup, Ne.symm hjk]
    · split
      · simp [Val.lookup, Ne.symm hjk]
      · simp only [Val.lookup]
        split
        · rfl
        · exact lookup_insert_other k j v hjk rest

omit [NumOps N] in
/-- Merging the members of an object into an accumulator: a key of the object
    gets the object's (last) value, other keys keep theirs. -/
theorem lookup_foldl_insert (j : Bytes) : ∀ (kvs acc : List (Bytes × Val N)),
    Val.lookup j (kvs.foldl (fun m kv => Val.insert kv.1 kv.2 m) acc) =
      match Val.lookup j kvs.reverse with
      | some v => some v
      | none => Val.lookup j acc
  | [], acc => by simp [Val.lookup]
  | (k, v) :: rest, acc => by
    simp only [List.foldl_cons, List.reverse_cons]
    rw [lookup_foldl_insert j rest (Val.insert k v acc)]
    have happ : ∀ (l : List (Bytes × Val N)), Val.lookup j (l ++ [(k, v)]) =
        match Val.lookup j l with | some w => some w | none => if k = j then some v else none := by
      intro l
      induction l with
      | nil => simp [Val.lookup]
      | cons p ps ih => obtain ⟨pk, pv⟩ := p; simp only [List.cons_append, Val.lookup]; split <;> simp_all
    rw [happ]
    cases hl : Val.lookup j rest.reverse with
    | some w => rfl
    | none =>
      simp only []
      by_cases hkj : k = j
      · subst hkj; simp [lookup_insert_same]
      · simp [hkj, lookup_insert_other k j v (Ne.symm hkj)]

/-- `merge(a, b)`: a key present in `b` has `b`'s value, otherwise `a`'s (objects with unique keys). -/
theorem C09_merge_later_wins (a b : List (Bytes × Val N)) (j : Bytes) (r : Val N)
    (h : handle (N := N) .merge false [.val (.obj a), .val (.obj b)] = .ok r) :
    ∃ kvs, r = .obj kvs ∧
      Val.lookup j kvs = (match Val.lookup j b.reverse with
        | some v => some v
        | none => match Val.lookup j a.reverse with | some v => some v | none => none) := by
  simp only [handle, Bool.false_eq_true, if_false, mergeLoop] at h
  cases h
  refine ⟨_, rfl, ?_⟩
  rw [lookup_foldl_insert j b, lookup_foldl_insert j a]
  simp [Val.lookup]

/-! ### map, reverse, keys/values, not_null, avg -/

omit [NumOps N] in
/-- `map`: one result per element, in order, nulls kept; the expression is
    evaluated once per element with that element as the current node. -/
theorem C09_map (f : Val N → Res (Val N)) : ∀ (xs ys : List (Val N)), mapLoop f xs = .ok ys →
    ys.length = xs.length ∧ ∀ i (hi : i < xs.length) (hj : i < ys.length), f xs[i] = .ok ys[i]
  | [], ys, h => by simp [mapLoop] at h; subst h; exact ⟨rfl, by intro i hi; cases hi⟩
  | x :: xs, ys, h => by
    simp only [mapLoop] at h
    cases hfx : f x with
    | ok y =>
      rw [hfx] at h
      cases hm : mapLoop f xs with
      | ok zs =>
        rw [hm] at h; cases h
        obtain ⟨hl, hi⟩ := C09_map f xs zs hm
        refine ⟨by simp [hl], ?_⟩
        intro i h1 h2
        cases i with
        | zero => exact hfx
        | succ j => exact hi j (by simpa using h1) (by simpa using h2)
      | err e => rw [hm] at h; cases h
      | panic p => rw [hm] at h; cases h
    | err e => rw [hfx] at h; cases h
    | panic p => rw [hfx] at h; cases h

theorem C09_reverse (xs : List (Val N)) (s : Bytes) :
    handle .reverse false [.val (.arr xs)] = .ok (.arr xs.reverse) ∧
    handle (N := N) .reverse false [.val (.str s)] = .ok (.str (Utf8.encodeRunes (Utf8.runes s).reverse)) := by
  simp [handle]

/-- `length` of a string counts code points. -/
theorem C09_length_string (s : Bytes) :
    handle (N := N) .length false [.val (.str s)] = .ok (.num (NumOps.ofNat (Utf8.runes s).length)) := by
  simp [handle, Utf8.runeCount]

theorem C09_keys_values (kvs : List (Bytes × Val N)) :
    handle .keys false [.val (.obj kvs)] = .ok (.arr (kvs.map (fun kv => .str kv.1))) ∧
    handle .values false [.val (.obj kvs)] = .ok (.arr (kvs.map (·.2))) := by
  simp [handle]

def firstNonNull : List (Val N) → Val N
  | [] => .null
  | .null :: rest => firstNonNull rest
  | v :: _ => v

/-- `not_null`: the first argument that is not null, or null. -/
theorem C09_not_null (vs : List (Val N)) : handle .notNull false (vs.map .val) = .ok (firstNonNull vs) := by
  simp only [handle, Bool.false_eq_true, if_false]
  induction vs with
  | nil => rfl
  | cons v rest ih =>
    cases v <;> simp only [List.map_cons, List.find?, firstNonNull]
    exact ih

theorem C09_avg (xs : List (Val N)) (ns : List N) (hn : allNums xs = some ns) (hne : xs ≠ []) :
    handle .avg false [.val (.arr xs)] = .ok (.num (NumOps.div (sumNums ns) (NumOps.ofNat xs.length))) ∧
    handle (N := N) .avg false [.val (.arr [])] = .ok .null := by
  refine ⟨?_, rfl⟩
  have hloop : ∀ (ys : List (Val N)) (ms : List N) (acc : N), allNums ys = some ms → avgLoop acc ys = .ok (ms.foldl NumOps.add acc) := by
    intro ys
    induction ys with
    | nil => intro ms acc h; simp [allNums] at h; subst h; rfl
    | cons y ys ih =>
      intro ms acc h
      cases y <;> simp [allNums] at h
      obtain ⟨r, hr, rfl⟩ := h
      simp only [avgLoop, List.foldl_cons]
      exact ih r _ hr
  have he : xs.isEmpty = false := by cases xs <;> simp_all
  simp only [handle, Bool.false_eq_true, if_false, he, hloop xs ns _ hn, sumNums]

/-! ### scalar functions, string predicates, conversions -/

/-- `abs`, `ceil`, `floor` apply the corresponding operation of the number type. -/
theorem C09_abs_ceil_floor (n : N) :
    handle .abs false [.val (.num n)] = .ok (.num (NumOps.abs n)) ∧
    handle .ceil false [.val (.num n)] = .ok (.num (NumOps.ceil n)) ∧
    handle .floor false [.val (.num n)] = .ok (.num (NumOps.floor n)) := ⟨rfl, rfl, rfl⟩

/-- `sum` adds the numbers from zero, left to right (so `sum([]) = 0`). -/
theorem C09_sum (xs : List (Val N)) (ns : List N) (h : allNums xs = some ns) :
    handle .sum false [.val (.arr xs)] = .ok (.num (ns.foldl NumOps.add (NumOps.ofNat 0))) := by
  simp [handle, toArrayNum, h, sumNums]

/-- `starts_with` / `ends_with` are the prefix / suffix relations on bytes. -/
theorem C09_starts_ends_with (s p : Bytes) :
    handle (N := N) .startsWith false [.val (.str s), .val (.str p)] = .ok (.bool (p.isPrefixOf s)) ∧
    handle (N := N) .endsWith false [.val (.str s), .val (.str p)] = .ok (.bool (p.reverse.isPrefixOf s.reverse)) := ⟨rfl, rfl⟩

theorem isInfix_iff (needle : Bytes) : ∀ hay : Bytes, isInfix needle hay = true ↔ ∃ pre post, hay = pre ++ needle ++ post
  | [] => by
    simp only [isInfix, List.isEmpty_iff]
    constructor
    · intro h; exact ⟨[], [], by simp [h]⟩
    · rintro ⟨pre, post, h⟩
      have := congrArg List.length h
      simp at this
      exact List.eq_nil_of_length_eq_zero (by omega)
  | c :: rest => by
    simp only [isInfix, Bool.or_eq_true, isInfix_iff needle rest]
    constructor
    · rintro (h | ⟨pre, post, h⟩)
      · obtain ⟨t, ht⟩ := List.isPrefixOf_iff_prefix.mp h
        exact ⟨[], t, by simp [ht]⟩
      · exact ⟨c :: pre, post, by simp [h]⟩
    · rintro ⟨pre, post, h⟩
      cases pre with
      | nil => left; exact List.isPrefixOf_iff_prefix.mpr ⟨post, by simpa using h.symm⟩
      | cons x pre' =>
        simp only [List.cons_append, List.cons.injEq] at h
        right; exact ⟨pre', post, h.2⟩

/-- `contains` on a string: the second string occurs in it; on an array: some element is deeply equal. -/
theorem C09_contains (s e : Bytes) (xs : List (Val N)) (el : Val N) :
    (handle (N := N) .contains false [.val (.str s), .val (.str e)] = .ok (.bool true) ↔ ∃ pre post, s = pre ++ e ++ post) ∧
    handle .contains false [.val (.arr xs), .val el] = .ok (.bool (xs.any fun x => Val.deepEq x el)) := by
  refine ⟨?_, rfl⟩
  simp only [handle, Bool.false_eq_true, if_false, Res.ok.injEq, Val.bool.injEq]
  exact isInfix_iff e s

/-- `join` glues the strings with the separator between consecutive ones. -/
theorem C09_join (sep : Bytes) (ss : List Bytes) :
    handle (N := N) .join false [.val (.str sep), .val (.arr (ss.map .str))] = .ok (.str (Json.intercalate sep ss)) := by
  have : ∀ l : List Bytes, joinLoop (N := N) sep (l.map .str) = .ok l := by
    intro l; induction l with
    | nil => rfl
    | cons x xs ih => simp [joinLoop, ih]
  simp [handle, this]

/-- `type` names the JSON type. -/
theorem C09_type (n : N) (s : Bytes) (xs : List (Val N)) (kvs : List (Bytes × Val N)) (bv : Bool) :
    handle .type false [.val (.num n)] = .ok (str "number") ∧ handle (N := N) .type false [.val (.str s)] = .ok (str "string") ∧
    handle .type false [.val (.arr xs)] = .ok (str "array") ∧ handle .type false [.val (.obj kvs)] = .ok (str "object") ∧
    handle (N := N) .type false [.val .null] = .ok (str "null") ∧ handle (N := N) .type false [.val (.bool bv)] = .ok (str "boolean") :=
  ⟨rfl, rfl, rfl, rfl, rfl, rfl⟩

/-- `to_array` wraps a non-array in a one-element array and leaves arrays alone. -/
theorem C09_to_array (xs : List (Val N)) (v : Val N) (hv : ∀ ys, v ≠ .arr ys) :
    handle .toArray false [.val (.arr xs)] = .ok (.arr xs) ∧ handle .toArray false [.val v] = .ok (.arr [v]) := by
  refine ⟨rfl, ?_⟩
  cases v with
  | arr ys => exact absurd rfl (hv ys)
  | _ => rfl

/-- `to_number`: a number is itself, a string is parsed (null when it is not a finite number), anything else is null. -/
theorem C09_to_number (n : N) (s : Bytes) (v : Val N) (hv : (∀ m, v ≠ .num m) ∧ (∀ t, v ≠ .str t)) :
    handle .toNumber false [.val (.num n)] = .ok (.num n) ∧
    handle (N := N) .toNumber false [.val (.str s)] =
      .ok (match (NumOps.parse s : Option N) with | some m => if NumOps.isFinite m then .num m else .null | none => .null) ∧
    handle .toNumber false [.val v] = .ok .null := by
  refine ⟨rfl, ?_, ?_⟩
  · simp only [handle, Bool.false_eq_true, if_false]
    cases (NumOps.parse s : Option N) with
    | none => rfl
    | some m => by_cases hf : NumOps.isFinite m = true <;> simp [hf]
  · cases v with
    | num m => exact absurd rfl (hv.1 m)
    | str t => exact absurd rfl (hv.2 t)
    | _ => rfl

/-- `to_string`: a string is itself; any other value becomes its JSON text — which reads
    back as the value (`decode (to_string v) = v`, given the number-text contract). -/
theorem C09_to_string (s : Bytes) (v : Val N) (hv : ∀ t, v ≠ .str t) (hf : v.finite = true) :
    handle (N := N) .toString false [.val (.str s)] = .ok (.str s) ∧
    handle .toString false [.val v] = .ok (.str (Json.encode v)) := by
  refine ⟨rfl, ?_⟩
  cases v with
  | str t => exact absurd rfl (hv t)
  | _ => simp [handle, hf]

open Jmes.Json in
theorem C09_to_string_reads_back (hN : NumCodec N) (v : Val N) (hv : ∀ t, v ≠ .str t) (hf : v.finite = true)
    (hok : okV v) (hd : depthV v ≤ maxDepth) :
    ∃ txt, handle .toString false [.val v] = .ok (.str txt) ∧ (Json.decode txt : Option (Val N)) = some v :=
  ⟨Json.encode v, (C09_to_string [] v hv hf).2, decode_encode hN v hok hd⟩

/-! ### strings in sort / sort_by / max / min / max_by / min_by: ordered by code point -/

open Jmes.StrOrder

/-- The order all these functions use on strings (`Val.bytesLt`, Go's `<`) is
    code-point order: on strings that are the UTF-8 encoding of Unicode scalar
    values, bytewise comparison is lexicographic comparison of the code points. -/
theorem C09_strings_compare_by_code_point (rs ts : List Nat)
    (hr : ∀ r ∈ rs, Utf8Order.Scalar r) (ht : ∀ t ∈ ts, Utf8Order.Scalar t) :
    Val.bytesLt (Utf8.encodeRunes rs) (Utf8.encodeRunes ts) = Utf8Order.lexLt rs ts :=
  Utf8Order.bytesLt_encodeRunes rs ts hr ht

/-- That order is a strict total order on all byte strings (valid UTF-8 or not). -/
theorem C09_string_order_is_strict_total :
    (∀ a : Bytes, Val.bytesLt a a = false) ∧
    (∀ a b c : Bytes, Val.bytesLt a b = true → Val.bytesLt b c = true → Val.bytesLt a c = true) ∧
    (∀ a b : Bytes, Val.bytesLt a b = true ∨ a = b ∨ Val.bytesLt b a = true) :=
  ⟨Utf8Order.bytesLt_irrefl, bytesLt_trans, bytesLt_total⟩

/-- `sort` on strings: the result is a permutation of the input, ascending
    (no element is greater than a later one), and stable (elements that are
    already in order — equal strings in particular — keep their relative order). -/
theorem C09_sort_strings (ss : List Bytes) :
    (List.mergeSort ss leStr).Perm ss ∧ (List.mergeSort ss leStr).Pairwise (fun x y => Val.bytesLt y x = false) ∧
    ∀ ts : List Bytes, ts.Pairwise (fun a b => leStr a b = true) → ts.Sublist ss → ts.Sublist (List.mergeSort ss leStr) := by
  refine ⟨List.mergeSort_perm ss leStr, ?_, ?_⟩
  · have := List.pairwise_mergeSort (le := leStr) leStr_trans leStr_total ss
    exact this.imp (fun h => by simpa [leStr] using h)
  · intro ts hp hs
    exact List.sublist_mergeSort (le := leStr) leStr_trans leStr_total hp hs

omit [NumOps N] in
/-- `leStr` is literally the comparison in the handler. -/
theorem C09_leStr_def : leStr = (fun x y => !Val.bytesLt y x) ∧
    (leStrKey (N := N)) = (fun a b => !Val.bytesLt b.1 a.1) := ⟨rfl, rfl⟩

/-- The handler is that sort (an array of strings, empty or not). -/
theorem C09_sort_handler_strings (xs : List (Val N)) (ss : List Bytes) (h : allStrs xs = some ss) :
    handle .sort false [.val (.arr xs)] = .ok (.arr ((List.mergeSort ss leStr).map .str)) := by
  cases xs with
  | nil =>
    simp [allStrs] at h
    subst h
    simp [handle, toArrayNum, allNums]
  | cons x xs =>
    cases x <;> simp only [allStrs, reduceCtorEq] at h
    simp only [handle, Bool.false_eq_true, if_false, toArrayNum, allNums, toArrayStr, allStrs, h, Option.getD]
    rfl

/-- … in the shape "an array whose elements are the strings `ss`". -/
theorem C09_sort_handler_string_array (ss : List Bytes) :
    handle (N := N) .sort false [.val (.arr (ss.map .str))] = .ok (.arr ((List.mergeSort ss leStr).map .str)) :=
  C09_sort_handler_strings _ ss (allStrs_map_str ss)

/-- `sort` on valid UTF-8 strings is the sort of the code point sequences by
    lexicographic code-point order. -/
theorem C09_sort_strings_by_code_point (rss : List (List Nat)) (h : ∀ rs ∈ rss, ∀ r ∈ rs, Utf8Order.Scalar r) :
    List.mergeSort (rss.map Utf8.encodeRunes) leStr =
      (List.mergeSort rss (fun a b => !Utf8Order.lexLt b a)).map Utf8.encodeRunes := by
  symm
  apply List.map_mergeSort
  intro a ha b hb
  simp only [leStr, C09_strings_compare_by_code_point b a (h b hb) (h a ha)]

omit [NumOps N] in
/-- `sort_by` with string keys: a stable ascending sort by key — a permutation
    of the (key, element) pairs, ascending in the key, preserving the order of
    elements whose keys are already in order (in particular of equal keys). -/
theorem C09_sort_by_strings_is_stable_sort (ps : List (Bytes × Val N)) :
    (List.mergeSort ps leStrKey).Perm ps ∧ (List.mergeSort ps leStrKey).Pairwise (fun a b => Val.bytesLt b.1 a.1 = false) ∧
    ∀ a b, leStrKey a b = true → [a, b].Sublist ps → [a, b].Sublist (List.mergeSort ps leStrKey) := by
  have ht : ∀ a b c : Bytes × Val N, leStrKey a b = true → leStrKey b c = true → leStrKey a c = true :=
    fun a b c => leStr_trans a.1 b.1 c.1
  have htot : ∀ a b : Bytes × Val N, (leStrKey a b || leStrKey b a) = true := fun a b => leStr_total a.1 b.1
  refine ⟨List.mergeSort_perm ps leStrKey, ?_, ?_⟩
  · exact (List.pairwise_mergeSort (le := leStrKey) ht htot ps).imp (fun h => by simpa [leStrKey] using h)
  · intro a b hab hs
    exact List.pair_sublist_mergeSort (le := leStrKey) ht htot hab hs

/-- … and the keys are evaluated by applying the expression reference to each element. -/
theorem C09_sort_by_handler_strings (f : Val N → Res (Val N)) (x y : Val N) (rest : List (Val N)) (k0 : Bytes)
    (ks : List (Bytes × Val N)) (h0 : f x = .ok (.str k0)) (hk : keysStr f (y :: rest) = .ok (some ks)) :
    sortBy f (x :: y :: rest) = .ok (.arr ((List.mergeSort ((k0, x) :: ks) leStrKey).map (·.2))) ∧
    ks.map (·.2) = y :: rest := by
  refine ⟨?_, keysStr_snd f _ ks hk⟩
  simp only [sortBy, h0, hk]
  rfl

/-- `max` on strings returns an element of the array that no element exceeds. -/
theorem C09_max_strings (s : Bytes) (ss : List Bytes) :
    maxStr s ss ∈ s :: ss ∧ ∀ y ∈ s :: ss, Val.bytesLt (maxStr s ss) y = false := by
  rw [maxStr_eq_extLoop]
  exact extLoop_extreme bytesLt_ord s ss

/-- `min` on strings returns an element of the array that exceeds no element. -/
theorem C09_min_strings (s : Bytes) (ss : List Bytes) :
    minStr s ss ∈ s :: ss ∧ ∀ y ∈ s :: ss, Val.bytesLt y (minStr s ss) = false := by
  rw [minStr_eq_extLoop]
  exact extLoop_extreme bytesGt_ord s ss

/-- The `max` / `min` handlers on a non-empty array of strings are those. -/
theorem C09_max_min_handler_strings (s : Bytes) (ss : List Bytes) :
    handle (N := N) .max false [.val (.arr ((s :: ss).map .str))] = .ok (.str (maxStr s ss)) ∧
    handle (N := N) .min false [.val (.arr ((s :: ss).map .str))] = .ok (.str (minStr s ss)) := by
  simp [handle, toArrayNum, allNums, toArrayStr, allStrs, allStrs_map_str]

/-- `max_by` with string keys: the result is an element with maximal key, and
    it is the FIRST such element: every earlier element has a strictly smaller key. -/
theorem C09_max_by_strings_first_maximal (f : Val N → Res (Val N)) (key : Val N → Bytes) (x : Val N) (xs : List (Val N)) (r : Val N)
    (hf : ∀ y ∈ x :: xs, f y = .ok (.str (key y))) (h : extremeBy f true (x :: xs) = .ok r) :
    ∃ pre post, x :: xs = pre ++ r :: post ∧ (∀ y ∈ pre, Val.bytesLt (key y) (key r) = true) ∧
      ∀ y ∈ post, Val.bytesLt (key r) (key y) = false := by
  simp only [extremeBy, hf x (by simp), if_true] at h
  exact byLoopStr_first_split bytesLt_ord f key x xs r hf h

/-- `min_by` with string keys: the FIRST element with minimal key. -/
theorem C09_min_by_strings_first_minimal (f : Val N → Res (Val N)) (key : Val N → Bytes) (x : Val N) (xs : List (Val N)) (r : Val N)
    (hf : ∀ y ∈ x :: xs, f y = .ok (.str (key y))) (h : extremeBy f false (x :: xs) = .ok r) :
    ∃ pre post, x :: xs = pre ++ r :: post ∧ (∀ y ∈ pre, Val.bytesLt (key r) (key y) = true) ∧
      ∀ y ∈ post, Val.bytesLt (key y) (key r) = false := by
  simp only [extremeBy, hf x (by simp), Bool.false_eq_true, if_false] at h
  exact byLoopStr_first_split bytesGt_ord f key x xs r hf h

/-! non-vacuity: `sort(["b", "a", "é", "a"])`, `max`, `min` on byte lists (é = C3 A9) -/
example : handle (N := N) .sort false [.val (.arr [.str [0x62], .str [0x61], .str [0xC3, 0xA9], .str [0x61]])] =
    .ok (.arr [.str [0x61], .str [0x61], .str [0x62], .str [0xC3, 0xA9]]) := by
  rw [C09_sort_handler_strings _ [[0x62], [0x61], [0xC3, 0xA9], [0x61]] rfl]
  simp [List.mergeSort, leStr, Val.bytesLt]
example : handle (N := N) .max false [.val (.arr [.str [0x62], .str [0xC3, 0xA9], .str [0x61]])] = .ok (.str [0xC3, 0xA9]) ∧
    handle (N := N) .min false [.val (.arr [.str [0x62], .str [0xC3, 0xA9], .str [0x61]])] = .ok (.str [0x61]) := by
  have := C09_max_min_handler_strings (N := N) [0x62] [[0xC3, 0xA9], [0x61]]
  simp only [List.map_cons, List.map_nil] at this
  rw [this.1, this.2]
  simp [maxStr, minStr, Val.bytesLt]
/-- é (U+00E9) sorts before 世 (U+4E16) because 0xE9 < 0x4E16 -/
example : List.mergeSort ([[0x4E16], [0xE9]].map Utf8.encodeRunes) leStr = [[0xE9], [0x4E16]].map Utf8.encodeRunes := by
  rw [C09_sort_strings_by_code_point _ (by simp [Utf8Order.Scalar])]
  simp [List.mergeSort, Utf8Order.lexLt]

/-! ### the remaining laws: min / min_by on numbers, empty max_by / min_by, length, merge, not_null, map -/

open Jmes.FnMore

/-- `min` on numbers returns an element of the array that exceeds no element;
    and the handler on a non-empty array of numbers returns that number. -/
theorem C09_min_numbers [NumLaws N] (x : N) (xs : List N) :
    minNum x xs ∈ x :: xs ∧ (∀ y ∈ x :: xs, NumOps.lt y (minNum x xs) = false) ∧
    handle .min false [.val (.arr ((x :: xs).map .num))] = .ok (.num (minNum x xs)) := by
  refine ⟨minNum_mem x xs, ?_, ?_⟩
  · intro y hy
    rcases List.mem_cons.mp hy with rfl | hy'
    · exact (minNum_le y xs).1
    · exact (minNum_le x xs).2 y hy'
  · simp [handle, toArrayNum, allNums, allNums_map_num]

/-- The `max` / `min` handlers on a non-empty array of numbers are `maxNum` / `minNum`
    (with `C09_max_numbers`, `C09_min_numbers`: the greatest / least element). -/
theorem C09_max_min_handler_numbers (vs : List (Val N)) (n : N) (ns : List N) (h : allNums vs = some (n :: ns)) :
    handle .max false [.val (.arr vs)] = .ok (.num (maxNum n ns)) ∧
    handle .min false [.val (.arr vs)] = .ok (.num (minNum n ns)) := by
  simp [handle, toArrayNum, h]

/-- `min_by` with number keys: the result is an element with minimal key, and
    it is the FIRST such element: every earlier element has a strictly greater key. -/
theorem C09_min_by_first_minimal [NumLaws N] (f : Val N → Res (Val N)) (key : Val N → N) (x : Val N) (xs : List (Val N)) (r : Val N)
    (hf : ∀ y ∈ x :: xs, f y = .ok (.num (key y))) (h : extremeBy f false (x :: xs) = .ok r) :
    ∃ pre post, x :: xs = pre ++ r :: post ∧ (∀ y ∈ pre, NumOps.lt (key r) (key y) = true) ∧
      ∀ y ∈ post, NumOps.lt (key y) (key r) = false := by
  simp only [extremeBy, hf x (by simp), Bool.false_eq_true, if_false] at h
  exact byLoopNum_first_split numGt_ord f key x xs r hf h

/-- … at the handler: `min_by(array, &expr)` is that element. -/
theorem C09_min_by_handler [NumLaws N] (f : Val N → Res (Val N)) (key : Val N → N) (x : Val N) (xs : List (Val N)) (r : Val N)
    (hf : ∀ y ∈ x :: xs, f y = .ok (.num (key y))) (h : handle .minBy true [.val (.arr (x :: xs)), .ref f] = .ok r) :
    ∃ pre post, x :: xs = pre ++ r :: post ∧ (∀ y ∈ pre, NumOps.lt (key r) (key y) = true) ∧
      ∀ y ∈ post, NumOps.lt (key y) (key r) = false :=
  C09_min_by_first_minimal f key x xs r hf (by simpa [handle] using h)

/-- `max_by` / `min_by` of the empty array are null, whatever the expression. -/
theorem C09_max_by_min_by_empty (f : Val N → Res (Val N)) :
    handle .maxBy true [.val (.arr []), .ref f] = .ok .null ∧
    handle .minBy true [.val (.arr []), .ref f] = .ok .null := by
  simp [handle, extremeBy]

/-- `length` of an array is its number of elements. -/
theorem C09_length_array (xs : List (Val N)) :
    handle .length false [.val (.arr xs)] = .ok (.num (NumOps.ofNat xs.length)) := by
  simp [handle]

/-- `length` of an object is its number of members. -/
theorem C09_length_object (kvs : List (Bytes × Val N)) :
    handle .length false [.val (.obj kvs)] = .ok (.num (NumOps.ofNat kvs.length)) := by
  simp [handle]

/-- `merge(a)`: an object in which every key looks up to the value it has in `a`
    (its last one, should `a` repeat a key; objects have unique keys — second part). -/
theorem C09_merge_single (a : List (Bytes × Val N)) (r : Val N)
    (h : handle (N := N) .merge false [.val (.obj a)] = .ok r) :
    ∃ kvs, r = .obj kvs ∧ (∀ j, Val.lookup j kvs = Val.lookup j a.reverse) ∧
      (a.Pairwise (fun p q => p.1 ≠ q.1) → ∀ j, Val.lookup j kvs = Val.lookup j a) := by
  simp only [handle, Bool.false_eq_true, if_false, mergeLoop] at h
  cases h
  have h1 : ∀ j, Val.lookup j (a.foldl (fun m kv => Val.insert kv.1 kv.2 m) []) = Val.lookup j a.reverse := by
    intro j
    rw [lookup_foldl_insert j a]
    cases Val.lookup j a.reverse <;> simp [Val.lookup]
  refine ⟨_, rfl, h1, ?_⟩
  intro hd j
  rw [h1 j, lookup_reverse_of_distinct j a hd]

/-- `merge` invents no keys: a key that is in none of the arguments is not in the result. -/
theorem C09_merge_keys_subset (objs : List (List (Bytes × Val N))) (j : Bytes) (r : Val N)
    (hj : ∀ o ∈ objs, Val.lookup j o = none)
    (h : handle (N := N) .merge false (objs.map (fun o => .val (.obj o))) = .ok r) :
    ∃ kvs, r = .obj kvs ∧ Val.lookup j kvs = none := by
  simp only [handle, Bool.false_eq_true, if_false] at h
  exact mergeLoop_absent j objs [] r rfl hj h

/-- `not_null` of arguments that are all null is null. -/
theorem C09_not_null_all_null (vs : List (Val N)) (h : ∀ v ∈ vs, v = .null) :
    handle .notNull false (vs.map .val) = .ok .null := by
  rw [C09_not_null]
  congr 1
  induction vs with
  | nil => rfl
  | cons v rest ih =>
    rw [h v (by simp)]
    simp only [firstNonNull]
    exact ih (fun w hw => h w (by simp [hw]))

/-- `map` keeps nulls: the result has exactly as many elements as the input, and
    where the expression yields null the result holds null (nothing is dropped). -/
theorem C09_map_keeps_nulls (f : Val N → Res (Val N)) (xs : List (Val N)) (r : Val N)
    (h : handle .map true [.ref f, .val (.arr xs)] = .ok r) :
    ∃ ys, r = .arr ys ∧ ys.length = xs.length ∧
      ∀ i (hi : i < xs.length) (hj : i < ys.length), f xs[i] = .ok .null → ys[i] = .null := by
  simp only [handle, Bool.not_true, Bool.false_eq_true, if_false] at h
  cases hm : mapLoop f xs with
  | ok ys =>
    rw [hm] at h
    cases h
    obtain ⟨hl, hi⟩ := C09_map f xs ys hm
    refine ⟨ys, rfl, hl, ?_⟩
    intro i h1 h2 hn
    have := hi i h1 h2
    rw [hn] at this
    injection this with e
    exact e.symm
  | err e => rw [hm] at h; cases h
  | panic p => rw [hm] at h; cases h

/-! non-vacuity on the integer instance: `min([3,1,2])`, `min_by` / `max_by` with ties
    (keys 2,1,1,2: the FIRST minimal / maximal element), `length`, `merge`, `not_null`, `map` -/
example : handle (N := Int) .min false [.val (.arr [.num 3, .num 1, .num 2])] = .ok (.num 1) :=
  (C09_min_numbers (N := Int) 3 [1, 2]).2.2
example : handle (N := Int) .max false [.val (.arr [.num 3, .num 1, .num 2])] = .ok (.num 3) ∧
    handle (N := Int) .min false [.val (.arr [.num 3, .num 1, .num 2])] = .ok (.num 1) :=
  C09_max_min_handler_numbers (N := Int) _ 3 [1, 2] rfl
/-- elements are pairs [key, tag]; the expression is "the first component" -/
def exKey : Val Int → Res (Val Int)
  | .arr (k :: _) => .ok k
  | _ => .ok .null
example : handle (N := Int) .minBy true [.val (.arr [.arr [.num 2, .num 0], .arr [.num 1, .num 1], .arr [.num 1, .num 2], .arr [.num 2, .num 3]]), .ref exKey] =
    .ok (.arr [.num 1, .num 1]) ∧
  handle (N := Int) .maxBy true [.val (.arr [.arr [.num 1, .num 0], .arr [.num 2, .num 1], .arr [.num 2, .num 2], .arr [.num 1, .num 3]]), .ref exKey] =
    .ok (.arr [.num 2, .num 1]) := ⟨rfl, rfl⟩
example : handle (N := Int) .maxBy true [.val (.arr []), .ref exKey] = .ok .null := (C09_max_by_min_by_empty exKey).1
example : handle (N := Int) .length false [.val (.arr [.null, .null, .num 7])] = .ok (.num 3) ∧
    handle (N := Int) .length false [.val (.obj [([0x61], .null), ([0x62], .num 1)])] = .ok (.num 2) :=
  ⟨C09_length_array _, C09_length_object _⟩
example : handle (N := Int) .merge false [.val (.obj [([0x61], .num 1), ([0x62], .num 2)])] =
    .ok (.obj [([0x61], .num 1), ([0x62], .num 2)]) := rfl
example : handle (N := Int) .notNull false [.val .null, .val .null] = .ok .null :=
  C09_not_null_all_null [.null, .null] (by simp)
example : handle (N := Int) .map true [.ref exKey, .val (.arr [.arr [.num 5], .arr [], .num 1])] = .ok (.arr [.num 5, .null, .null]) := rfl

end Jmes.Props
