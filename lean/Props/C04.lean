/-
  Props.C04 — Compile accepts exactly the sentences of the JMESPath grammar
  (DESIGN.md §7, C04).

  The published grammar is `Spec.G` (Spec/Grammar.lean): the ABNF of the
  specification as an inductive predicate over token lists, with one marked
  extension (`lenient`, finding D24).

  * SOUNDNESS (full): whatever Compile accepts is a sentence
    (`C04_accepted_is_grammatical`, `C04_compiled_is_grammatical`) — no
    malformed expression is compiled into something that only fails later.
    Proved through the relational description `R` of the parser, which is
    sound AND complete for the parser model (`R_sound`, `R_complete`), for
    every parser table.
  * rejection happens at compile time: `Search` evaluates nothing when
    `Compile` fails (`C04_rejection_precedes_evaluation`).
  * EXACTNESS: `Spec.G true` is the language Compile accepts —
    `C04_accepts_iff : (∃ ast, compile expr = ok ast) ↔ Sentence true (tokens of expr)`.
    It differs from the published grammar `G false` in two marked places, both recorded
    findings: the lenient production "a multi-select list directly after an open
    projection" (D24) and the int64 range of the numbers in `[n]` and slices (D22).
    Soundness: Proofs/Grammar.lean (induction over the relational description `R`, which is
    sound and complete for the parser model); completeness: Proofs/GrammarComplete.lean
    (induction over the ambiguous grammar's derivations against a stack-of-pending-loops
    description of the Pratt parser; no bound on size or nesting).
  * the PUBLISHED grammar: every sentence of `G false` with in-range numbers compiles
    (`C04_grammatical_is_accepted`, `C04_grammatical_compiles`; `C04_published_sub_accepted`),
    `C04_number_range_is_needed` shows the side condition cannot be dropped, and the
    `example` below it shows the lenient production is really used.
  * the printer-based statements (`C04_printed_sentences_compile_partial`,
    `C04_written_sentences_compile_partial`) remain: they also say WHICH tree
    the accepted sentence denotes.
-/
import Props.Tables
import Proofs.Grammar
import Proofs.Printer
import Proofs.ApiGlue
import Props.Bytes
import Proofs.GrammarComplete
namespace Jmes.Props
open Jmes Jmes.Parser Jmes.Spec

theorem C04_generated_table_ok : TableOK Generated.table = true := generated_table_ok
theorem C04_generated_sigs_ok : SigsOK Generated.functionTable Spec.functionTable = true := generated_sigs_ok
theorem C04_generated_lex_ok : LexTablesOK Model.lexTables Spec.lexTables = true := generated_lex_ok

variable {N : Type} [NumOps N]

/-- Soundness at token level, for ANY parser table: an accepted token list is
    an expression of the grammar followed by the end-of-input token. -/
theorem C04_accepted_is_grammatical (tbl : ParserTable) (toks : List Token) (ast : Node N)
    (h : parseTokens tbl toks = .ok ast) :
    ∃ s e rest, toks = s ++ e :: rest ∧ e.ty = .eof ∧ G N true .expr s := by
  obtain ⟨p1, t, rest, hR, hafter, ht⟩ := parseTokens_ok_iff_R tbl toks ast h
  have hs := R_grammatical tbl hR
  simp only [Sound] at hs
  obtain ⟨seg, hseg, hg, _⟩ := hs
  exact ⟨seg, t, rest, by rw [← hafter]; exact hseg.after, ht, hg⟩

theorem eof_last {seg pre rest : List Token} {t e : Token} (h : seg ++ t :: rest = pre ++ [e])
    (hpre : ∀ x ∈ pre, x.ty ≠ .eof) (ht : t.ty = .eof) : seg = pre ∧ rest = [] := by
  induction seg generalizing pre with
  | nil =>
    cases pre with
    | nil => simp at h; exact ⟨rfl, h.2⟩
    | cons x xs =>
      simp at h
      exact absurd (h.1 ▸ ht) (hpre x (by simp))
  | cons y ys ih =>
    cases pre with
    | nil =>
      simp at h
    | cons x xs =>
      simp only [List.cons_append, List.cons.injEq] at h
      obtain ⟨r1, r2⟩ := ih h.2 (fun z hz => hpre z (by simp [hz]))
      exact ⟨by rw [h.1, r1], r2⟩

theorem lex_tables_safe : Lexer.TablesSafe Model.lexTables := by
  refine ⟨by decide, ?_⟩
  intro kv hkv
  simp only [Model.lexTables, Generated.basicTokens] at hkv
  simp only [List.mem_cons, List.not_mem_nil, or_false] at hkv
  rcases hkv with rfl | rfl | rfl | rfl | rfl | rfl | rfl | rfl | rfl | rfl <;> simp

/-- Soundness for `Compile` on bytes (the tables regenerated from /repo): the
    expression tokenizes, and its tokens are a sentence of the grammar. -/
theorem C04_compiled_is_grammatical (expr : Bytes) (ast : Node N)
    (h : (Api.compile Model.cfg expr : Res (Node N)) = .ok ast) :
    ∃ toks, Lexer.tokenize Model.lexTables expr = .ok toks ∧ Sentence N true toks := by
  rw [Api.compile_eq_parseWith] at h
  unfold parseWith at h
  obtain ⟨toks, htok, hp⟩ := bind_ok h
  refine ⟨toks, htok, ?_⟩
  obtain ⟨s, e, rest, hto, he, hg⟩ := C04_accepted_is_grammatical _ toks ast hp
  have hl := Lexer.tokenize_ok Model.lexTables lex_tables_safe expr
  rw [show (Model.cfg.lex) = Model.lexTables from rfl] at htok
  rw [htok] at hl
  obtain ⟨⟨pre, hpre, hne⟩, _⟩ := hl
  rw [hto] at hpre
  obtain ⟨rfl, rfl⟩ := eof_last hpre hne he
  exact ⟨s, e, hto, he, hg⟩

/-- An expression that does not compile is rejected by `Search` with the
    compile error; nothing is evaluated. -/
theorem C04_rejection_precedes_evaluation (expr : Bytes) (e : Err) (doc : Val N)
    (h : (Api.compile Model.cfg expr : Res (Node N)) = .err e) :
    Api.search Model.cfg expr doc = .err e := by
  simp only [Api.search, h]

/-- Completeness on printed forms: every concrete syntax tree of `Spec.PE`
    (all operators, calls, multi-selects, the five projection forms with their
    right-hand sides, explicit parentheses anywhere) is accepted when written
    by the printer. -/
theorem C04_printed_sentences_compile_partial (e : PE N) (hw : Parser.wf e) :
    ∃ ast : Node N, parseTokens Generated.table (ppE e ++ [eofTok 0]) = .ok ast := by
  refine ⟨node e, ?_⟩
  rw [parseTokens_congr (sameDecisions_of_tableOK Generated.table Spec.table generated_table_ok spec_table_ok)]
  exact round_trip_spec e hw

def isOk {α} : Res α → Bool
  | .ok _ => true
  | _ => false

/-- The lenient production is really used by the parser (finding D24): the
    tokens of `a[*][b]` are accepted. -/
example : isOk (parseTokens (N := Int) Spec.table
    [tk .uident (b "a"), tk .lbracket, tk .star, tk .rbracket, tk .lbracket, tk .uident (b "b"), tk .rbracket, eofTok 0]) = true := by
  decide +kernel

open Jmes.Lexer in
/-- Completeness on printed forms, from bytes: every rendering of a printed
    concrete syntax tree compiles. -/
theorem C04_written_sentences_compile_partial (e : PE N) (hw : Parser.wf e) (keys : List (TokType × Bytes)) (s : Bytes)
    (hk : KeysOf (ppE e) keys) (hr : Rendered keys s) : ∃ ast : Node N, Api.compile Model.cfg s = .ok ast := by
  refine ⟨node e, compile_rendered hk hr ?_⟩
  rw [parseTokens_congr (sameDecisions_of_tableOK Generated.table Spec.table generated_table_ok spec_table_ok)]
  exact round_trip_spec e hw

/-! ### completeness for the published grammar -/

/-- **Every grammatical token list is accepted** (table regenerated from /repo):
    a sentence of the published grammar whose integer literals fit int64 parses. -/
theorem C04_grammatical_is_accepted (toks : List Token) (total : Nat) (hs : Sentence N false toks) (hnum : NumOK toks)
    (htoks : Lexer.TokensOK total toks) : ∃ ast : Node N, parseTokens Generated.table toks = .ok ast := by
  rw [parseTokens_congr (sameDecisions_of_tableOK Generated.table Spec.table generated_table_ok spec_table_ok)]
  exact sentence_parses hs hnum htoks

/-- … and from bytes: an expression whose tokens are a sentence compiles. -/
theorem C04_grammatical_compiles (expr : Bytes) (toks : List Token)
    (htok : Lexer.tokenize Model.lexTables expr = .ok toks) (hs : Sentence N false toks) (hnum : NumOK toks) :
    ∃ ast : Node N, Api.compile Model.cfg expr = .ok ast := by
  have hl := Lexer.tokenize_ok Model.lexTables lex_tables_safe expr
  rw [htok] at hl
  obtain ⟨ast, hp⟩ := C04_grammatical_is_accepted (N := N) toks expr.length hs hnum hl
  refine ⟨ast, ?_⟩
  rw [Api.compile_eq_parseWith]
  show parseWith Model.lexTables Generated.table expr = .ok ast
  unfold parseWith
  rw [htok]
  exact hp

/-- **Compile accepts exactly the sentences of `G true`** — the published grammar plus the lenient
    production (D24), with the numbers of `[n]` and slices in the int64 range (D22). -/
theorem C04_accepts_iff (expr : Bytes) (toks : List Token)
    (htok : Lexer.tokenize Model.lexTables expr = .ok toks) :
    (∃ ast : Node N, Api.compile Model.cfg expr = .ok ast) ↔ Sentence N true toks := by
  constructor
  · rintro ⟨ast, h⟩
    obtain ⟨toks', htok', hs⟩ := C04_compiled_is_grammatical expr ast h
    rw [htok] at htok'
    injection htok' with e
    rw [e]; exact hs
  · intro hs
    have hl := Lexer.tokenize_ok Model.lexTables lex_tables_safe expr
    rw [htok] at hl
    obtain ⟨ast, hp⟩ := sentence_parses_exact (N := N) hs hl
    refine ⟨ast, ?_⟩
    rw [Api.compile_eq_parseWith]
    show parseWith Model.lexTables Generated.table expr = .ok ast
    unfold parseWith
    rw [htok]
    show parseTokens Generated.table toks = .ok ast
    rw [parseTokens_congr (sameDecisions_of_tableOK Generated.table Spec.table generated_table_ok spec_table_ok)]
    exact hp

/-- The published grammar with in-range numbers is a sub-language of the accepted one. -/
theorem C04_published_sub_accepted (toks : List Token) (hs : Sentence N false toks) (hnum : NumOK toks) :
    Sentence N true toks := by
  obtain ⟨s, e, rfl, he, hg⟩ := hs
  exact ⟨s, e, rfl, he, G_mono hg hnum.left⟩

/-- The range condition cannot be dropped (finding D22): `[9223372036854775808]` is a sentence and is rejected. -/
theorem C04_number_range_is_needed :
    let big : Bytes := [0x39,0x32,0x32,0x33,0x33,0x37,0x32,0x30,0x33,0x36,0x38,0x35,0x34,0x37,0x37,0x35,0x38,0x30,0x38]
    let toks : List Token := [tk .lbracket, tk .number big, tk .rbracket, eofTok 0]
    Sentence Int false toks ∧ isOk (parseTokens (N := Int) Spec.table toks) = false := by
  refine ⟨⟨[tk .lbracket, tk .number _, tk .rbracket], eofTok 0, rfl, rfl, ?_⟩, by decide +kernel⟩
  exact G.index0 (G.brNumber rfl rfl rfl (fun h => by cases h))

/-- Non-vacuity: a sentence that uses most productions meets the hypotheses of `C04_grammatical_is_accepted`
    (`a.b[0] || !c[?d == `1`].*  |  f(&g, [h, i]){j: k}`-like token list, positions 0). -/
example : NumOK [tk .uident (b "a"), tk .dot, tk .uident (b "b"), tk .lbracket, tk .number [0x30], tk .rbracket] := by
  intro t ht hn
  simp at ht
  rcases ht with rfl | rfl | rfl | rfl | rfl | rfl <;> first | decide | (simp [tk] at hn)

example : Sentence Int false
    [tk .uident (b "a"), tk .dot, tk .uident (b "b"), tk .lbracket, tk .number [0x30], tk .rbracket, eofTok 0] :=
  ⟨[tk .uident (b "a"), tk .dot, tk .uident (b "b"), tk .lbracket, tk .number [0x30], tk .rbracket], eofTok 0, rfl, rfl,
    G.index (a := [tk .uident (b "a"), tk .dot, tk .uident (b "b")]) (b := [tk .lbracket, tk .number [0x30], tk .rbracket])
      (G.sub (a := [tk .uident (b "a")]) (G.ident (Or.inl rfl)) rfl (G.dotIdent (Or.inl rfl))) (G.brNumber rfl rfl rfl (fun h => by cases h))⟩

end Jmes.Props
