/-
  Props.C05 — Compile and Search never panic and always return
  (DESIGN.md §7, C05; partial: resource bounds and the Go runtime are
  monitored on the implementation, not modelled).

  Proved here, for the interpreter with the function table REGENERATED from
  /repo: `Execute` never panics, for every AST whose slice literals are 64-bit
  integers and every document, and it always returns (the model is a total
  function: every definition is structurally recursive or carries a fuel whose
  exhaustion is an explicit `panic` outcome, excluded by these theorems).
-/
import Props.Tables
import Proofs.EvalSafe
import Proofs.ApiGlue
namespace Jmes.Props
open Jmes Jmes.Interp

theorem C05_generated_table_ok : TableOK Generated.table = true := generated_table_ok
theorem C05_generated_sigs_ok : SigsOK Generated.functionTable Spec.functionTable = true := generated_sigs_ok
theorem C05_generated_lex_ok : LexTablesOK Model.lexTables Spec.lexTables = true := generated_lex_ok

variable {N : Type} [NumOps N]

/-- With the function table found in /repo's source, no call panics: every
    handler's unchecked type assertion is dominated by the type check. -/
theorem C05_function_table_safe : TableSafe N Generated.functionTable := by
  intro name args hs
  rw [Fn.callFunction_congr _ _ generated_sigs_ok]
  exact Fn.spec_call_np name args hs

/-- `Execute` never panics and never hangs: every node type, every
    projection loop, every index, every slice (for all 64-bit start/stop/step),
    every function call, on every document. -/
theorem C05_execute_never_panics (n : Node N) (h : slicesOK n) (d : Val N) :
    (eval Generated.functionTable n d).isPanic = false :=
  eval_np Generated.functionTable C05_function_table_safe n h d

/-- In other words: `Execute` returns a value or an error. -/
theorem C05_execute_returns (n : Node N) (h : slicesOK n) (d : Val N) :
    (∃ v, eval Generated.functionTable n d = .ok v) ∨ (∃ e, eval Generated.functionTable n d = .err e) :=
  not_panic_cases _ (C05_execute_never_panics n h d)

/-- The integers the parser puts into slice nodes come from `strconv.Atoi`
    and are 64-bit, so the hypothesis `slicesOK` holds for parsed expressions
    (`Parser.sliceLoop` stores only `atoi` results). -/
theorem C05_atoi_is_64_bit (s : Bytes) (v : Int) (h : Parser.atoi s = some v) : Slice.InRange v := by
  unfold Parser.atoi at h
  obtain ⟨w, _, hw⟩ := Option.bind_eq_some_iff.mp h
  unfold Parser.clampInt64 at hw
  split at hw
  · rename_i hr
    cases hw
    unfold Slice.InRange; unfold Parser.minInt64 Parser.maxInt64 at hr
    omega
  · exact absurd hw (by simp)

/-- The character tables found in /repo's source are safe: the guard
    `r >= 128` keeps every index into `identifierTrailingBits` in range, and no
    single-character token is tEOF. -/
theorem C05_generated_lex_tables_safe : Lexer.TablesSafe Model.lexTables := by
  refine ⟨by decide, ?_⟩
  intro kv hkv
  simp only [Model.lexTables, Generated.basicTokens] at hkv
  simp only [List.mem_cons, List.not_mem_nil, or_false] at hkv
  rcases hkv with rfl | rfl | rfl | rfl | rfl | rfl | rfl | rfl | rfl | rfl <;> simp

theorem C05_generated_eof_power : Generated.table.power .eof = 0 := by decide

/-- `Compile` never panics and always returns, for ANY byte string (valid
    UTF-8 or not): the lexer consumes at least one byte per step, the token
    cursor is never read out of range, the fuel of the Pratt parser (a bound on
    its recursion) always suffices. -/
theorem C05_compile_never_panics (expr : Bytes) : (Api.compile (N := N) Model.cfg expr).isPanic = false := by
  rw [Api.compile_eq_parseWith]
  show (Parser.parseWith Model.lexTables Generated.table expr : Res (Node N)).isPanic = false
  have := Parser.parseWith_ok (N := N) (tbl := Generated.table) Model.lexTables C05_generated_lex_tables_safe
    C05_generated_eof_power expr
  cases h : (Parser.parseWith Model.lexTables Generated.table expr : Res (Node N)) with
  | ok e => rfl
  | err e => rfl
  | panic s => rw [h] at this; exact this.elim

/-- End to end: the one-shot `Search` never panics and always returns, for any
    bytes as the expression and any document. -/
theorem C05_search_never_panics (expr : Bytes) (doc : Val N) : (Api.search Model.cfg expr doc).isPanic = false := by
  unfold Api.search
  rw [Api.compile_eq_parseWith]
  have := Parser.parseWith_ok (N := N) (tbl := Generated.table) Model.lexTables C05_generated_lex_tables_safe
    C05_generated_eof_power expr
  show (match (Parser.parseWith Model.lexTables Generated.table expr : Res (Node N)) with
    | .ok ast => eval Generated.functionTable ast doc
    | .err e => .err e
    | .panic s => .panic s).isPanic = false
  cases h : (Parser.parseWith Model.lexTables Generated.table expr : Res (Node N)) with
  | ok e => rw [h] at this; exact C05_execute_never_panics e this doc
  | err e => rfl
  | panic s => rw [h] at this; exact this.elim

/-! Non-vacuity: a nested expression with a by-expression function and a
    slice with an extreme step satisfies the hypothesis. -/
example : slicesOK (N := Int)
    (.pipe (.call [0x6D, 0x61, 0x70] [(true, .sub .current (.slice none none (some 9223372036854775807))), (false, .current)])
           (.proj (.flatten .current) .identity)) := by
  simp only [slicesOK, slicesOKArgs, optOK]
  refine ⟨⟨⟨trivial, ?_, ?_, ?_⟩, trivial, trivial⟩, trivial, trivial⟩
  · intro x hx; cases hx
  · intro x hx; cases hx
  · intro x hx; cases hx; unfold Slice.InRange; decide

end Jmes.Props
