/-
  Props.C03 — operator precedence, associativity and projection scope follow
  the JMESPath rules (DESIGN.md §7, C03).

  (1) The table regenerated from /repo satisfies the order facts of the rules
      (`TableOK`), and (2) any table satisfying them parses every token list
      exactly like the specification's table (`Spec.table`) — so the parser in
      /repo IS the specification-table parser; (3) theorems about that parser
      (Proofs/Printer…) state the rules themselves.
-/
import Proofs.Compose
import Props.C15
import Props.Tables
import Proofs.ApiGlue
import Proofs.Printer
import Props.Bytes
namespace Jmes.Props
open Jmes Jmes.Parser

/-- (1) pipe < or < and < comparators (all equal) < flatten < [projection stop] ≤
    star < filter < dot < not < brace < bracket < call; terminators 0; every
    constant handed to a parse function is the power the rules prescribe. -/
theorem C03_generated_table_ok : TableOK Generated.table = true := generated_table_ok
theorem C03_generated_sigs_ok : SigsOK Generated.functionTable Spec.functionTable = true := generated_sigs_ok
theorem C03_generated_lex_ok : LexTablesOK Model.lexTables Spec.lexTables = true := generated_lex_ok

variable {N : Type} [NumOps N]

/-- (2) Every table that satisfies the order facts parses like the specification's table. -/
theorem C03_order_facts_determine_the_parser (tbl : ParserTable) (h : TableOK tbl = true) (toks : List Token) :
    parseTokens (N := N) tbl toks = parseTokens Spec.table toks :=
  parseTokens_congr (sameDecisions_of_tableOK tbl Spec.table h spec_table_ok) toks

/-- In particular the parser found in /repo: on every byte string, `Compile`
    returns what the specification-table parser returns (same AST, same error, same offset). -/
theorem C03_repo_parser_is_spec_parser (expr : Bytes) :
    (Api.compile Model.cfg expr : Res (Node N)) = parseWith Model.lexTables Spec.table expr := by
  rw [Api.compile_eq_parseWith]
  exact parseWith_congr (sameDecisions_of_tableOK Generated.table Spec.table generated_table_ok spec_table_ok)
    Model.lexTables expr

/-- Equal parse implies equal result on every document: evaluation is a function of the AST. -/
theorem C03_equal_parse_equal_result (e1 e2 : Bytes) (ast : Node N)
    (h1 : (Api.compile Model.cfg e1 : Res (Node N)) = .ok ast) (h2 : (Api.compile Model.cfg e2 : Res (Node N)) = .ok ast)
    (doc : Val N) : Api.search Model.cfg e1 doc = Api.search Model.cfg e2 doc := by
  simp only [Api.search, h1, h2]

/-! ### (3) The precedence and projection-scope rules themselves: the parser inverts the printer

`Spec.PE` is the concrete syntax tree of an expression (Spec/Printer.lean):
identifiers, literals, `@`, index, sub-expression, `!`, the binary operators
`|`, `||`, `&&` and the six comparators, function calls with `&` arguments,
multi-select lists and hashes, explicit parentheses anywhere, and the
projections `*`, `[*]`, `[]`, slices and filters with their right-hand sides —
nested without bound.  `Spec.ppE e` writes `e` with parentheses ONLY where the
JMESPath rules require them:

  * a left operand is parenthesised when a token of the operator's power would
    otherwise be read as part of it (`PE.rp`), a right operand when its level
    is not higher than the operator's (left associativity); levels: pipe < or <
    and < comparators < flatten < filter < dot < not < index, `[*]`, slice < call;
  * a projection's right-hand side is read at level 20 (9 after `[]`, 21 after
    a filter): it takes every dot, bracket and filter that follows and ends in
    front of a pipe, a flatten or any looser operator — so `a[*].b.c` is
    `a[*].(b.c)` applied per element, and `(a[*].b).c` needs its parentheses.

The theorem: the parser of /repo (its regenerated table) maps the printed
tokens to the AST `e` denotes, so unparenthesised expressions group exactly as
the rules dictate; and explicit parentheses leave no trace (`node_erase`). -/

open Jmes.Spec in
theorem C03_printer_round_trip (e : PE N) (hw : Parser.wf e) :
    parseTokens Generated.table (ppE e ++ [eofTok 0]) = .ok (node e) := by
  rw [C03_order_facts_determine_the_parser Generated.table generated_table_ok]
  exact round_trip_spec e hw

/-- Redundant parentheses never change the parse (hence, by
    `C03_equal_parse_equal_result`, never the meaning): an expression with
    explicit parentheses anywhere parses to the AST of the expression with all
    of them erased (the printer re-inserts the necessary ones). -/
theorem C03_redundant_parentheses (e : Spec.PE N) (hw : Parser.wf e) (hw' : Parser.wf (Spec.erase e)) :
    parseTokens (N := N) Generated.table (Spec.ppE e ++ [eofTok 0]) =
      parseTokens Generated.table (Spec.ppE (Spec.erase e) ++ [eofTok 0]) := by
  rw [C03_printer_round_trip e hw, C03_printer_round_trip _ hw', node_erase]

section Examples
open Jmes.Spec
private def a : PE N := .ident (b "a")
private def b' : PE N := .ident (b "b")
private def c : PE N := .ident (b "c")
private def t (ty : TokType) : Token := tk ty
private def i (s : String) : Token := tk .uident (b s)

-- what the printer writes (these are evaluations of `ppE`, shown so that the
-- theorem above can be read concretely; they are not the unbounded claim)
/-- `a || b || c` is `(a || b) || c` … -/
example : ppE (.bin .or (.bin .or (a (N := N)) b') c) = [i "a", t .or, i "b", t .or, i "c"] := rfl
/-- … and `a || (b || c)` needs its parentheses. -/
example : ppE (.bin .or (a (N := N)) (.bin .or b' c)) = [i "a", t .or, t .lparen, i "b", t .or, i "c", t .rparen] := rfl
/-- `a || b && c` is `a || (b && c)`; `(a || b) && c` needs its parentheses. -/
example : ppE (.bin .or (a (N := N)) (.bin .and b' c)) = [i "a", t .or, i "b", t .and, i "c"] := rfl
example : ppE (.bin .and (.bin .or (a (N := N)) b') c) = [t .lparen, i "a", t .or, i "b", t .rparen, t .and, i "c"] := rfl
/-- `!a == b` is `(!a) == b`; `a.b | c` is `(a.b) | c`; `!(a.b)` needs its parentheses (`!a.b` is `(!a).b`). -/
example : ppE (.bin (.cmp .eq) (.not (a (N := N))) b') = [t .not, i "a", t .eq, i "b"] := rfl
example : ppE (.bin .pipe (.sub (a (N := N)) b') c) = [i "a", t .dot, i "b", t .pipe, i "c"] := rfl
example : ppE (.not (.sub (a (N := N)) b')) = [t .not, t .lparen, i "a", t .dot, i "b", t .rparen] := rfl
/-- projection scope: `a[*].b.c` applies `b.c` to every element … -/
example : ppE (.bstar (a (N := N)) (.dot (.sub b' c))) = [i "a", t .lbracket, t .star, t .rbracket, t .dot, i "b", t .dot, i "c"] := rfl
/-- … whereas `.c` applied to the projection's result needs parentheses: `(a[*].b).c`; -/
example : ppE (.sub (.bstar (a (N := N)) (.dot b')) c) =
    [t .lparen, i "a", t .lbracket, t .star, t .rbracket, t .dot, i "b", t .rparen, t .dot, i "c"] := rfl
/-- a pipe and a flatten end the right-hand side: `a[*].b | c`, `a[*].b[]`; -/
example : ppE (.bin .pipe (.bstar (a (N := N)) (.dot b')) c) = [i "a", t .lbracket, t .star, t .rbracket, t .dot, i "b", t .pipe, i "c"] := rfl
example : ppE (.flat (.bstar (a (N := N)) (.dot b')) .none) = [i "a", t .lbracket, t .star, t .rbracket, t .dot, i "b", t .flatten] := rfl
/-- so does `||`: `a[?b].c || c`. -/
example : ppE (.bin .or (.filt (a (N := N)) b' (.dot c)) c) =
    [i "a", t .filter, i "b", t .rbracket, t .dot, i "c", t .or, i "c"] := rfl
/-- the hypotheses of the theorem are satisfiable: -/
example : Parser.wf (.bin .or (.bin .or (a (N := N)) b') (.sub c (.call (b "f") [(true, a), (false, .list b' [c])]))) := by
  simp [Parser.wf, Parser.wfArgs, Parser.wfList, dotOK, first, PE.isListOrHash, PE.level, a, b', c]
example : Parser.wf (.flat (.bstar (a (N := N)) (.dot (.sub b' c))) (.br (.idx0 [0x30] 0))) := by
  have h0 : atoi [0x30] = some 0 := by decide
  simp [Parser.wf, Parser.wfRhs, dotOK, brOK, first, PE.isListOrHash, PE.level, PE.rp, a, b', c, h0]
end Examples

/-! ### (4) from bytes: white space and spellings

`Lexer.Rendered keys s`: the byte string `s` writes the tokens `keys`, each in
one of its spellings (`Lexer.Spell`), with arbitrary runs of white space before,
between and after them; tokens touch only where they cannot fuse. -/

open Jmes.Spec Jmes.Lexer in
/-- **The written expression compiles to its AST**: any rendering of the printed
    tokens of `e` — with any white space — compiles to `node e`. -/
theorem C03_bytes_round_trip (e : PE N) (hw : Parser.wf e) (keys : List (TokType × Bytes)) (s : Bytes)
    (hk : KeysOf (ppE e) keys) (hr : Rendered keys s) : Api.compile Model.cfg s = .ok (node e) :=
  compile_rendered hk hr (C03_printer_round_trip e hw)

open Jmes.Lexer in
/-- **White space between tokens never changes the meaning**: two byte strings
    that render the same tokens compile to the same AST (then
    `C03_equal_parse_equal_result`: same result on every document). -/
theorem C03_white_space_insignificant (keys : List (TokType × Bytes)) (s1 s2 : Bytes) (ast : Node N)
    (h1 : Rendered keys s1) (h2 : Rendered keys s2) (hp : Api.compile Model.cfg s1 = .ok ast) :
    Api.compile Model.cfg s2 = .ok ast :=
  compile_same_tokens h1 h2 hp

open Jmes.Lexer in
/-- non-vacuity: `a . b` and `a.b` both render the tokens a, dot, b -/
example : Rendered [(.uident, [0x61]), (.dot, [0x2E]), (.uident, [0x62])] [0x61, 0x20, 0x2E, 0x20, 0x62] ∧
    Rendered [(.uident, [0x61]), (.dot, [0x2E]), (.uident, [0x62])] [0x61, 0x2E, 0x62] := by
  constructor
  · exact Rendered.cons [] .uident [0x61] [0x61] _ _ (by simp) (.ident 0x61 [] (by decide) (by simp))
      (Rendered.cons [0x20] .dot [0x2E] [0x2E] _ _ (by decide) (.basic 0x2E .dot (by decide))
        (Rendered.cons [0x20] .uident [0x62] [0x62] _ _ (by decide) (.ident 0x62 [] (by decide) (by simp))
          (Rendered.nil [] (by simp)) trivial) trivial) (by simp [Follows, isIdTrail, isIdStart, isDigitB])
  · exact Rendered.cons [] .uident [0x61] [0x61] _ _ (by simp) (.ident 0x61 [] (by decide) (by simp))
      (Rendered.cons [] .dot [0x2E] [0x2E] _ _ (by simp) (.basic 0x2E .dot (by decide))
        (Rendered.cons [] .uident [0x62] [0x62] _ _ (by simp) (.ident 0x62 [] (by decide) (by simp))
          (Rendered.nil [] (by simp)) trivial) trivial) (by simp [Follows, isIdTrail, isIdStart, isDigitB])

/-! ### for arbitrary expressions (no restriction to printed forms) -/

section AnyExpressions
open Jmes.Parser Jmes.Spec
variable {N : Type} [NumOps N]

/-- **Redundant parentheses around ANY expression**: if the tokens `A` compile to `a`, then `( A )`
    compiles to the same AST `a` (hence evaluates identically on every document). -/
theorem C03_parentheses_around_any_expression (As : List Token) (eA eB l r : Token) (a : Node N) (total : Nat)
    (heA : eA.ty = .eof) (heB : eB.ty = .eof) (hl : l.ty = .lparen) (hr : r.ty = .rparen)
    (hnA : ∀ t ∈ As, t.ty ≠ .eof) (hA : parseTokens Generated.table (As ++ [eA]) = .ok a)
    (htoks : Lexer.TokensOK total (l :: (As ++ [r, eB]))) :
    parseTokens Generated.table (l :: (As ++ [r, eB])) = .ok a := by
  have hsd := sameDecisions_of_tableOK Generated.table Spec.table generated_table_ok spec_table_ok
  rw [parseTokens_congr hsd] at hA ⊢
  exact parseTokens_of_R (paren_of_parse heA heB hl hr (parse_consumes_all heA hnA hA)) ⟨eB, [], rfl, heB⟩ htoks

/-- `n` opening parentheses, the expression, `n` closing parentheses. -/
def parenN (n : Nat) (l r : Token) (As : List Token) : List Token := List.replicate n l ++ As ++ List.replicate n r

theorem parenN_succ (n : Nat) (l r : Token) (As : List Token) :
    parenN (n + 1) l r As = l :: (parenN n l r As ++ [r]) := by
  unfold parenN
  rw [List.replicate_succ, List.replicate_succ']
  simp [List.append_assoc]

/-- **No depth limit**: parentheses nested to ANY depth `n` around an expression that compiles to `a`
    compile to `a` as well — the grammar has no nesting bound and neither has the parser (the model's fuel
    always suffices).  An implementation limit on nesting depth contradicts this theorem at its boundary. -/
theorem C03_parentheses_to_any_depth (n : Nat) (As : List Token) (l r : Token) (a : Node N) (total : Nat)
    (hl : l.ty = .lparen) (hr : r.ty = .rparen) (hlp : l.pos ≤ total) (hrp : r.pos ≤ total)
    (hnA : ∀ t ∈ As, t.ty ≠ .eof) (hpA : ∀ t ∈ As, t.pos ≤ total)
    (hA : parseTokens Generated.table (As ++ [⟨.eof, [], total⟩]) = .ok a) :
    parseTokens Generated.table (parenN n l r As ++ [⟨.eof, [], total⟩]) = .ok a := by
  induction n with
  | zero => simpa [parenN] using hA
  | succ n ih =>
    have hne : ∀ t ∈ parenN n l r As, t.ty ≠ .eof := by
      intro t ht
      simp only [parenN, List.mem_append, List.mem_replicate] at ht
      rcases ht with (⟨_, rfl⟩ | h) | ⟨_, rfl⟩
      · rw [hl]; decide
      · exact hnA t h
      · rw [hr]; decide
    have hpos : ∀ t ∈ parenN n l r As, t.pos ≤ total := by
      intro t ht
      simp only [parenN, List.mem_append, List.mem_replicate] at ht
      rcases ht with (⟨_, rfl⟩ | h) | ⟨_, rfl⟩
      · exact hlp
      · exact hpA t h
      · exact hrp
    have htoks : Lexer.TokensOK total (l :: (parenN n l r As ++ [r, ⟨.eof, [], total⟩])) := by
      refine ⟨⟨l :: (parenN n l r As ++ [r]), by simp, ?_⟩, ?_⟩
      · intro t ht
        simp only [List.mem_cons, List.mem_append, List.mem_singleton, List.not_mem_nil, or_false] at ht
        rcases ht with rfl | h | rfl
        · rw [hl]; decide
        · exact hne t h
        · rw [hr]; decide
      · intro t ht
        simp only [List.mem_cons, List.mem_append, List.mem_singleton, List.not_mem_nil, or_false] at ht
        rcases ht with rfl | h | rfl | rfl
        · exact hlp
        · exact hpos t h
        · exact hrp
        · exact Nat.le_refl _
    have := C03_parentheses_around_any_expression (parenN n l r As) ⟨.eof, [], total⟩ ⟨.eof, [], total⟩ l r a total
      rfl rfl hl hr hne ih htoks
    rw [parenN_succ]
    simpa [List.append_assoc] using this

/-- **An expression is read the same way wherever an expression is expected up to a closing token**:
    if `A` compiles to `a`, then at level 0 in any surroundings — after any consumed tokens, in front of
    `)`, `]`, `}`, `,` or the end of input: inside parentheses, as a member of a multi-select list or
    hash, as a function argument, as a filter condition — the parser reads exactly `A` and builds `a`.
    So parenthesising such a member (`C03_parentheses_around_any_expression`) changes nothing either. -/
theorem C03_member_is_read_as_alone (As : List Token) (eA : Token) (a : Node N)
    (heA : eA.ty = .eof) (hnA : ∀ t ∈ As, t.ty ≠ .eof) (hA : parseTokens Spec.table (As ++ [eA]) = .ok a)
    (bef : List Token) (f : Token) (rest : List Token) (hf : followerOK f.ty = true) (hpow : Parser.specPow f.ty = 0) :
    R Spec.table (.expr 0 ⟨bef, As ++ f :: rest⟩) (.node a ⟨As.reverse ++ bef, f :: rest⟩) :=
  expr0_in_context heA (parse_consumes_all heA hnA hA) bef f rest hf hpow

end AnyExpressions

end Jmes.Props
