/-
  Props.C03 — operator precedence, associativity and projection scope follow
  the JMESPath rules (DESIGN.md §7, C03).

  (1) The table regenerated from /repo satisfies the order facts of the rules
      (`TableOK`), and (2) any table satisfying them parses every token list
      exactly like the specification's table (`Spec.table`) — so the parser in
      /repo IS the specification-table parser; (3) theorems about that parser
      (Proofs/Printer…) state the rules themselves.
-/
import Props.Tables
import Proofs.ApiGlue
namespace Jmes.Props
open Jmes Jmes.Parser

/-- (1) pipe < or < and < comparators (all equal) < flatten < [projection stop] ≤
    star < filter < dot < not < brace < bracket < call; terminators 0; every
    constant handed to a parse function is the power the rules prescribe. -/
theorem C03_generated_table_ok : TableOK Generated.table = true := generated_table_ok
theorem C03_generated_sigs_ok : SigsOK Generated.functionTable Spec.functionTable = true := generated_sigs_ok
theorem C03_generated_lex_ok : LexTablesOK Model.lexTables Spec.lexTables = true := generated_lex_ok

variable {N : Type} [NumOps N]

/-- (2) Every table that satisfies the order facts parses like the specification's table. -/
theorem C03_order_facts_determine_the_parser (tbl : ParserTable) (h : TableOK tbl = true) (toks : List Token) :
    parseTokens (N := N) tbl toks = parseTokens Spec.table toks :=
  parseTokens_congr (sameDecisions_of_tableOK tbl Spec.table h spec_table_ok) toks

/-- In particular the parser found in /repo: on every byte string, `Compile`
    returns what the specification-table parser returns (same AST, same error, same offset). -/
theorem C03_repo_parser_is_spec_parser (expr : Bytes) :
    (Api.compile Model.cfg expr : Res (Node N)) = parseWith Model.lexTables Spec.table expr := by
  rw [Api.compile_eq_parseWith]
  exact parseWith_congr (sameDecisions_of_tableOK Generated.table Spec.table generated_table_ok spec_table_ok)
    Model.lexTables expr

/-- Equal parse implies equal result on every document: evaluation is a function of the AST. -/
theorem C03_equal_parse_equal_result (e1 e2 : Bytes) (ast : Node N)
    (h1 : (Api.compile Model.cfg e1 : Res (Node N)) = .ok ast) (h2 : (Api.compile Model.cfg e2 : Res (Node N)) = .ok ast)
    (doc : Val N) : Api.search Model.cfg e1 doc = Api.search Model.cfg e2 doc := by
  simp only [Api.search, h1, h2]

end Jmes.Props
