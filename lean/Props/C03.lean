/-
  Props.C03 — operator precedence, associativity and projection scope follow
  the JMESPath rules (DESIGN.md §7, C03).

  (1) The table regenerated from /repo satisfies the order facts of the rules
      (`TableOK`), and (2) any table satisfying them parses every token list
      exactly like the specification's table (`Spec.table`) — so the parser in
      /repo IS the specification-table parser; (3) theorems about that parser
      (Proofs/Printer…) state the rules themselves.
-/
import Props.Tables
import Proofs.ApiGlue
import Proofs.Printer
namespace Jmes.Props
open Jmes Jmes.Parser

/-- (1) pipe < or < and < comparators (all equal) < flatten < [projection stop] ≤
    star < filter < dot < not < brace < bracket < call; terminators 0; every
    constant handed to a parse function is the power the rules prescribe. -/
theorem C03_generated_table_ok : TableOK Generated.table = true := generated_table_ok
theorem C03_generated_sigs_ok : SigsOK Generated.functionTable Spec.functionTable = true := generated_sigs_ok
theorem C03_generated_lex_ok : LexTablesOK Model.lexTables Spec.lexTables = true := generated_lex_ok

variable {N : Type} [NumOps N]

/-- (2) Every table that satisfies the order facts parses like the specification's table. -/
theorem C03_order_facts_determine_the_parser (tbl : ParserTable) (h : TableOK tbl = true) (toks : List Token) :
    parseTokens (N := N) tbl toks = parseTokens Spec.table toks :=
  parseTokens_congr (sameDecisions_of_tableOK tbl Spec.table h spec_table_ok) toks

/-- In particular the parser found in /repo: on every byte string, `Compile`
    returns what the specification-table parser returns (same AST, same error, same offset). -/
theorem C03_repo_parser_is_spec_parser (expr : Bytes) :
    (Api.compile Model.cfg expr : Res (Node N)) = parseWith Model.lexTables Spec.table expr := by
  rw [Api.compile_eq_parseWith]
  exact parseWith_congr (sameDecisions_of_tableOK Generated.table Spec.table generated_table_ok spec_table_ok)
    Model.lexTables expr

/-- Equal parse implies equal result on every document: evaluation is a function of the AST. -/
theorem C03_equal_parse_equal_result (e1 e2 : Bytes) (ast : Node N)
    (h1 : (Api.compile Model.cfg e1 : Res (Node N)) = .ok ast) (h2 : (Api.compile Model.cfg e2 : Res (Node N)) = .ok ast)
    (doc : Val N) : Api.search Model.cfg e1 doc = Api.search Model.cfg e2 doc := by
  simp only [Api.search, h1, h2]

/-! ### (3) The precedence rules themselves: the parser inverts the precedence-aware printer

`Spec.PE` is the abstract syntax of the projection-free fragment (identifiers,
literals, `@`, index, sub-expression, `!`, the binary operators `|`, `||`, `&&`
and the six comparators, function calls with `&` arguments, multi-select lists
and hashes, nested without bound).  `Spec.ppE false e` writes `e` with
parentheses ONLY where the JMESPath precedence rules require them — a left
operand of lower level, a right operand of lower OR EQUAL level (left
associativity), with levels pipe < or < and < comparators < dot < not < index <
call — and `Spec.ppE true e` parenthesises every operand.  The theorem says the
parser of /repo (its regenerated table) maps both spellings to the AST `e`
denotes: unparenthesised expressions group exactly as the rules dictate. -/

open Jmes.Spec in
theorem C03_printer_round_trip (e : PE N) (hw : Parser.wf e) (full : Bool) :
    parseTokens Generated.table (ppE full e ++ [eofTok 0]) = .ok (node e) := by
  rw [C03_order_facts_determine_the_parser Generated.table generated_table_ok]
  exact round_trip_spec e hw full

/-- Redundant parentheses never change the parse (hence, by
    `C03_equal_parse_equal_result`, never the meaning). -/
theorem C03_redundant_parentheses (e : Spec.PE N) (hw : Parser.wf e) :
    parseTokens (N := N) Generated.table (Spec.ppE true e ++ [eofTok 0]) =
      parseTokens Generated.table (Spec.ppE false e ++ [eofTok 0]) := by
  rw [C03_printer_round_trip e hw true, C03_printer_round_trip e hw false]

section Examples
open Jmes.Spec
private def a : PE N := .ident (b "a")
private def b' : PE N := .ident (b "b")
private def c : PE N := .ident (b "c")
private def t (ty : TokType) : Token := tk ty
private def i (s : String) : Token := tk .uident (b s)

-- what the printer writes (these are evaluations of `ppE`, shown so that the
-- theorem above can be read concretely; they are not the unbounded claim)
/-- `a || b || c` is `(a || b) || c` … -/
example : ppE false (.bin .or (.bin .or (a (N := N)) b') c) = [i "a", t .or, i "b", t .or, i "c"] := rfl
/-- … and `a || (b || c)` needs its parentheses. -/
example : ppE false (.bin .or (a (N := N)) (.bin .or b' c)) = [i "a", t .or, t .lparen, i "b", t .or, i "c", t .rparen] := rfl
/-- `a || b && c` is `a || (b && c)`; `(a || b) && c` needs its parentheses. -/
example : ppE false (.bin .or (a (N := N)) (.bin .and b' c)) = [i "a", t .or, i "b", t .and, i "c"] := rfl
example : ppE false (.bin .and (.bin .or (a (N := N)) b') c) = [t .lparen, i "a", t .or, i "b", t .rparen, t .and, i "c"] := rfl
/-- `!a == b` is `(!a) == b`; `a.b | c` is `(a.b) | c`; `!(a.b)` needs its parentheses (`!a.b` is `(!a).b`: not binds tighter than dot). -/
example : ppE false (.bin (.cmp .eq) (.not (a (N := N))) b') = [t .not, i "a", t .eq, i "b"] := rfl
example : ppE false (.bin .pipe (.sub (a (N := N)) b') c) = [i "a", t .dot, i "b", t .pipe, i "c"] := rfl
example : ppE false (.not (.sub (a (N := N)) b')) = [t .not, t .lparen, i "a", t .dot, i "b", t .rparen] := rfl
/-- the hypotheses of the theorem are satisfiable: -/
example : Parser.wf (.bin .or (.bin .or (a (N := N)) b') (.sub c (.call (b "f") [(true, a), (false, .list b' [c])]))) := by
  simp [Parser.wf, Parser.wfArgs, Parser.wfList, dotOK, dotHead, a, b', c]
end Examples

end Jmes.Props
