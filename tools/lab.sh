#!/bin/sh
# usage: lab.sh <name>   -- an isolated copy of /verif (with its build output) and a worktree of /repo under /tmp/lab/<name>,
# so that seeded changes can be applied and checked (VERIF_REPO) without touching /repo or disturbing work in /verif.
# Remove with: lab.sh -d <name>
if [ "$1" = "-d" ]; then git -C /repo worktree remove --force /tmp/lab/$2/repo 2>/dev/null; rm -rf /tmp/lab/$2; git -C /repo worktree prune; exit 0; fi
L=/tmp/lab/$1
git -C /repo worktree remove --force $L/repo 2>/dev/null; rm -rf $L; mkdir -p $L
git -C /repo worktree add -q --detach $L/repo HEAD || exit 2
rsync -a --exclude .git --exclude evidence/replays /verif/ $L/verif/
sed -i "s#=> /repo#=> $L/repo#" $L/verif/harness/go.mod
echo $L
