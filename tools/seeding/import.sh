#!/bin/sh
# usage: import.sh C01 C02 ...  -- import the finished round-8 outputs of these properties
for prop in "$@"; do
for d in /tmp/wt/r11out/$prop-*/; do
  [ -f $d/patch.diff ] && [ -f $d/NOTES.md ] || continue
  [ -f $d/.imported ] && continue
  b=$(basename $d)
  n=1; while [ -d /verif/seeded/$prop-m$n ]; do n=$((n+1)); done
  id=$prop-m$n
  mkdir -p /verif/seeded/$id
  cp $d/patch.diff $d/NOTES.md /verif/seeded/$id/
  for t in $d/*_test.go; do [ -f $t ] && cp $t /verif/seeded/$id/; done
  echo $id > $d/.imported
  echo "$b -> $id"
done
done
