import Driver.F64
/-!
Differential test driver for `Jmes.F64`.

usage:  f64check cases.txt

Each line of the case file is one of
  P <hex-encoded input bytes, or "-" for the empty string> <16 hex digits | ERR>
  F <16 hex digits: float64 bits> <expected text>
  T <q as decimal integer> <32 hex digits>     (Eisel-Lemire power-of-ten table row)
-/
open Jmes.F64

def hexVal (c : Char) : Option Nat :=
  if '0' ≤ c && c ≤ '9' then some (c.toNat - '0'.toNat)
  else if 'a' ≤ c && c ≤ 'f' then some (c.toNat - 'a'.toNat + 10)
  else if 'A' ≤ c && c ≤ 'F' then some (c.toNat - 'A'.toNat + 10)
  else none

def hexNat (s : String) : Option Nat :=
  s.toList.foldl (fun acc c => do let a ← acc; let v ← hexVal c; pure (a * 16 + v)) (some 0)

def hexBytes : List Char → Option (List UInt8)
  | [] => some []
  | a :: b :: r => do
    let x ← hexVal a; let y ← hexVal b; let t ← hexBytes r
    pure ((x * 16 + y).toUInt8 :: t)
  | _ => none

def toHex16 (n : Nat) : String :=
  let s := String.ofList (Nat.toDigits 16 n)
  String.ofList (List.replicate (16 - s.length) '0') ++ s

def bytesToString (b : List UInt8) : String :=
  String.ofList (b.map (fun c => Char.ofNat c.toNat))

structure Stats where
  nP : Nat := 0
  nF : Nat := 0
  nT : Nat := 0
  bad : Nat := 0

def checkLine (st : Stats) (line : String) : IO Stats := do
  if line.isEmpty then return st
  match line.splitOn " " with
  | ["P", inp, exp] =>
    let bytes? := if inp == "-" then some [] else hexBytes inp.toList
    match bytes? with
    | none => IO.println s!"BADLINE {line}"; return { st with bad := st.bad + 1 }
    | some bytes =>
      let got := match parse bytes with
        | none => "ERR"
        | some b => toHex16 b.toNat
      if got == exp then return { st with nP := st.nP + 1 }
      else
        if st.bad < 60 then
          IO.println s!"PARSE MISMATCH input={(bytesToString bytes).quote} (len {bytes.length}) got={got} want={exp}"
        return { st with nP := st.nP + 1, bad := st.bad + 1 }
  | ["F", bitsHex, exp] =>
    match hexNat bitsHex with
    | none => IO.println s!"BADLINE {line}"; return { st with bad := st.bad + 1 }
    | some n =>
      let got := bytesToString (format n.toUInt64)
      if got == exp then return { st with nF := st.nF + 1 }
      else
        if st.bad < 60 then
          IO.println s!"FORMAT MISMATCH bits={bitsHex} got={got} want={exp}"
        return { st with nF := st.nF + 1, bad := st.bad + 1 }
  | ["T", q, exp] =>
    match q.toInt?, hexNat exp with
    | some qi, some want =>
      let got := pow10Mant128 qi
      if got == want then return { st with nT := st.nT + 1 }
      else
        IO.println s!"TABLE MISMATCH q={qi}"
        return { st with nT := st.nT + 1, bad := st.bad + 1 }
    | _, _ => IO.println s!"BADLINE {line}"; return { st with bad := st.bad + 1 }
  | _ => IO.println s!"BADLINE {line}"; return { st with bad := st.bad + 1 }

def main (args : List String) : IO UInt32 := do
  match args with
  | [path] =>
    let lines ← IO.FS.lines path
    let mut st : Stats := {}
    for l in lines do
      st ← checkLine st l
    IO.println s!"parse cases: {st.nP}  format cases: {st.nF}  table rows: {st.nT}  mismatches: {st.bad}"
    return (if st.bad == 0 then 0 else 1)
  | _ =>
    IO.eprintln "usage: f64check cases.txt"
    return 2
