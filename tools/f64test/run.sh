#!/bin/sh
# Differential test of lean/Driver/F64.lean against the Go standard library.
#
#   tools/f64test/run.sh [seed [scale]]
#
# Builds everything in a scratch directory (default /tmp/f64test-work, override
# with WORK=...), never inside the repository.
set -eu
HERE=$(cd "$(dirname "$0")" && pwd)
F64=${F64:-$HERE/../../lean/Driver/F64.lean}
WORK=${WORK:-/tmp/f64test-work}
export GOFLAGS=-mod=mod GOPROXY=off GOSUMDB=off GOTOOLCHAIN=local

mkdir -p "$WORK/Driver"
cp "$F64" "$WORK/Driver/F64.lean"
cp "$HERE/Check.lean" "$WORK/Main.lean"
cat > "$WORK/lakefile.toml" <<'EOT'
name = "f64test"
defaultTargets = ["f64check"]

[[lean_lib]]
name = "Driver"

[[lean_exe]]
name = "f64check"
root = "Main"
EOT
if [ -f "$HERE/../../lean/lean-toolchain" ]; then cp "$HERE/../../lean/lean-toolchain" "$WORK/lean-toolchain"; fi

echo "== generating cases with $(go version)"
(cd "$HERE/gen" && go run . "$@") > "$WORK/cases.txt"
echo "== building Lean checker"
(cd "$WORK" && lake build f64check)
echo "== checking"
"$WORK/.lake/build/bin/f64check" "$WORK/cases.txt"
