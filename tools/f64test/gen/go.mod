module f64gen

go 1.23
