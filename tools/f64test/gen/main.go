// Command gen emits differential test cases for Jmes.F64 (lean/Driver/F64.lean).
//
// Output (stdout), one case per line:
//
//	P <hex-encoded input bytes | "-" for ""> <16 hex digits of Float64bits | ERR>
//	F <16 hex digits of Float64bits> <text written by encoding/json | NaN | +Inf | -Inf>
//	T <q> <32 hex digits>     row q of strconv's Eisel-Lemire power-of-ten table
//
// The expected values are computed by the Go standard library of the toolchain
// that runs this program (developed against go1.23).
package main

import (
	"bufio"
	"encoding/hex"
	"encoding/json"
	"fmt"
	"math"
	"math/big"
	"math/rand"
	"os"
	"os/exec"
	"path/filepath"
	"regexp"
	"strconv"
	"strings"
)

var (
	out    *bufio.Writer
	rng    = rand.New(rand.NewSource(20260929))
	scale  = 1 // multiplier for the sizes of the randomised classes
	nP, nF int
	nT     int
	seenP  = map[string]bool{}
	counts = map[string]int{}
	cat    = "misc"
)

func emitP(s string) {
	if seenP[s] {
		return
	}
	seenP[s] = true
	f, err := strconv.ParseFloat(s, 64)
	enc := "-"
	if len(s) > 0 {
		enc = hex.EncodeToString([]byte(s))
	}
	if err != nil {
		fmt.Fprintf(out, "P %s ERR\n", enc)
	} else {
		fmt.Fprintf(out, "P %s %016x\n", enc, math.Float64bits(f))
	}
	nP++
	counts["P:"+cat]++
}

func jsonText(f float64) string {
	if math.IsNaN(f) || math.IsInf(f, 0) {
		return strconv.FormatFloat(f, 'g', -1, 64) // NaN, +Inf, -Inf
	}
	b, err := json.Marshal(f)
	if err != nil {
		panic(err)
	}
	return string(b)
}

func emitF(bits uint64) {
	f := math.Float64frombits(bits)
	fmt.Fprintf(out, "F %016x %s\n", bits, jsonText(f))
	nF++
	counts["F:"+cat]++
}

// emitBoth emits a format case for bits plus parse cases for several textual
// renderings of the same value.
func emitBoth(bits uint64) {
	emitF(bits)
	f := math.Float64frombits(bits)
	if math.IsNaN(f) || math.IsInf(f, 0) {
		return
	}
	emitP(jsonText(f))
	switch rng.Intn(6) {
	case 0:
		emitP(strconv.FormatFloat(f, 'e', 16, 64))
	case 1:
		emitP(strconv.FormatFloat(f, 'e', 17+rng.Intn(10), 64))
	case 2:
		emitP(strconv.FormatFloat(f, 'g', -1, 64))
	case 3:
		emitP(strconv.FormatFloat(f, 'x', -1, 64))
	case 4:
		emitP(strconv.FormatFloat(f, 'e', rng.Intn(16), 64))
	case 5:
		emitP(strconv.FormatFloat(f, 'E', -1, 64))
	}
}

func randBits() uint64 { return rng.Uint64() }

// randBitsExp returns a random double with a uniformly chosen exponent field.
func randBitsExp() uint64 {
	e := uint64(rng.Intn(2047)) // finite only
	m := rng.Uint64() & (1<<52 - 1)
	switch rng.Intn(8) {
	case 0:
		m &= 0xFFFFF00000000 // few mantissa bits
	case 1:
		m = uint64(rng.Intn(16))
	case 2:
		m = 1<<52 - 1 - uint64(rng.Intn(16))
	}
	s := uint64(rng.Intn(2)) << 63
	return s | e<<52 | m
}

// exactDecimal returns the exact plain decimal expansion of num * 2^pow2.
func exactDecimal(num *big.Int, pow2 int) string {
	if pow2 >= 0 {
		return new(big.Int).Lsh(num, uint(pow2)).String()
	}
	k := -pow2
	n := new(big.Int).Mul(num, new(big.Int).Exp(big.NewInt(5), big.NewInt(int64(k)), nil))
	ds := n.String()
	if len(ds) <= k {
		ds = strings.Repeat("0", k-len(ds)+1) + ds
	}
	ip, fp := ds[:len(ds)-k], ds[len(ds)-k:]
	fp = strings.TrimRight(fp, "0")
	if fp == "" {
		return ip
	}
	return ip + "." + fp
}

// sciForm rewrites a plain decimal "iii.fff" as "d.ddddde±x" (exactly).
func sciForm(plain string) string {
	ip, fp, _ := strings.Cut(plain, ".")
	digits := ip + fp
	exp := len(ip) - 1
	i := 0
	for i < len(digits)-1 && digits[i] == '0' {
		i++
		exp--
	}
	digits = digits[i:]
	if len(digits) == 1 {
		return fmt.Sprintf("%se%d", digits, exp)
	}
	return fmt.Sprintf("%s.%se%d", digits[:1], digits[1:], exp)
}

// decompose returns m, e with value = m * 2^e for a finite positive double.
func decompose(bits uint64) (uint64, int) {
	ef := int(bits >> 52 & 0x7FF)
	m := bits & (1<<52 - 1)
	if ef == 0 {
		return m, -1074
	}
	return m | 1<<52, ef - 1075
}

// midpointCases emits parse cases around the midpoint between the positive
// double `bits` and its successor.
func midpointCases(bits uint64) {
	bits &^= 1 << 63
	if bits>>52&0x7FF == 0x7FF {
		return
	}
	m, e := decompose(bits)
	mid := new(big.Int).SetUint64(m)
	mid.Lsh(mid, 1).Add(mid, big.NewInt(1))
	plain := exactDecimal(mid, e-1)
	withDot := plain
	if !strings.Contains(withDot, ".") {
		withDot += "."
	}
	sign := ""
	if rng.Intn(4) == 0 {
		sign = "-"
	}
	emitP(sign + plain)                      // exact tie
	emitP(sign + sciForm(plain))             // exact tie, scientific
	emitP(sign + withDot + "0000")           // exact tie with trailing zeros
	emitP(sign + withDot + "1")              // just above
	emitP(sign + withDot + "000000000000001") // just above
	// just below: only when the last digit is a non-zero fraction digit or integer
	if last := plain[len(plain)-1]; last >= '1' && last <= '9' {
		below := plain[:len(plain)-1] + string(last-1)
		if !strings.Contains(below, ".") {
			below += "."
		}
		emitP(sign + below + "9999999999")
		emitP(sign + below + strings.Repeat("9", 60))
	}
	// sticky beyond Go's 800-digit buffer
	nd := len(strings.TrimLeft(strings.Replace(plain, ".", "", 1), "0"))
	if nd < 1000 {
		pad := 0
		if nd < 805 {
			pad = 805 - nd + rng.Intn(100)
		}
		emitP(sign + withDot + strings.Repeat("0", pad) + "1")
		emitP(sign + withDot + strings.Repeat("0", pad) + "0")
	}
	// scientific with shifted exponent
	sci := sciForm(plain)
	mant, ex, _ := strings.Cut(sci, "e")
	exi, _ := strconv.Atoi(ex)
	sh := rng.Intn(40) + 1
	intd, frd, _ := strings.Cut(mant, ".")
	if len(frd) >= sh {
		emitP(sign + intd + frd[:sh] + "." + frd[sh:] + "e" + strconv.Itoa(exi-sh))
	}
	emitP(sign + "0.000" + intd + frd + "E" + strconv.Itoa(exi+4))
}

func randDigits(n int) string {
	b := make([]byte, n)
	for i := range b {
		b[i] = byte('0' + rng.Intn(10))
	}
	return string(b)
}

func randHexDigits(n int) string {
	const hd = "0123456789abcdefABCDEF"
	b := make([]byte, n)
	for i := range b {
		b[i] = hd[rng.Intn(len(hd))]
	}
	return string(b)
}

func maybeSign() string {
	switch rng.Intn(6) {
	case 0:
		return "-"
	case 1:
		return "+"
	}
	return ""
}

// insertUnderscores inserts underscores between characters at random; most
// results are valid for Go, some are not.
func insertUnderscores(s string) string {
	var sb strings.Builder
	for i := 0; i < len(s); i++ {
		sb.WriteByte(s[i])
		if rng.Intn(5) == 0 {
			sb.WriteByte('_')
			if rng.Intn(10) == 0 {
				sb.WriteByte('_')
			}
		}
	}
	return sb.String()
}

func randShortDecimal() string {
	var sb strings.Builder
	sb.WriteString(maybeSign())
	ni := rng.Intn(6)
	nf := rng.Intn(6)
	sb.WriteString(randDigits(ni))
	if rng.Intn(3) > 0 {
		sb.WriteByte('.')
		sb.WriteString(randDigits(nf))
	}
	if rng.Intn(3) == 0 {
		sb.WriteByte("eE"[rng.Intn(2)])
		sb.WriteString([]string{"", "+", "-"}[rng.Intn(3)])
		sb.WriteString(strconv.Itoa(rng.Intn(30)))
	}
	return sb.String()
}

func randLongDecimal(maxDigits int) string {
	var sb strings.Builder
	sb.WriteString(maybeSign())
	n := 1 + rng.Intn(maxDigits)
	d := randDigits(n)
	switch rng.Intn(5) {
	case 0: // mostly zeros tail
		k := rng.Intn(n)
		d = d[:k] + strings.Repeat("0", n-k)
	case 1: // leading zeros
		k := rng.Intn(n)
		d = strings.Repeat("0", k) + d[k:]
	case 2: // nines
		k := rng.Intn(n)
		d = d[:k] + strings.Repeat("9", n-k)
	}
	dot := rng.Intn(n + 1)
	switch rng.Intn(3) {
	case 0:
		sb.WriteString(d)
	default:
		sb.WriteString(d[:dot] + "." + d[dot:])
	}
	if rng.Intn(4) > 0 {
		sb.WriteByte("eE"[rng.Intn(2)])
		// aim the exponent so that the value often lands in range
		target := rng.Intn(660) - 340
		e := target - dot
		if rng.Intn(10) == 0 {
			e = rng.Intn(4000) - 2000
		}
		if e >= 0 && rng.Intn(2) == 0 {
			sb.WriteByte('+')
		}
		sb.WriteString(strconv.Itoa(e))
	}
	return sb.String()
}

// bigIntegerPart produces inputs with more than 800 significant digits before
// the decimal point, scaled back into range by a negative exponent (this hits
// a decimal-point bug in Go's slow path that the Lean port reproduces).
func bigIntegerPart() string {
	var head string
	switch rng.Intn(6) {
	case 0:
		head = "1"
	case 1:
		head = strconv.FormatUint(1<<53+1+2*uint64(rng.Intn(1000)), 10)
	case 2:
		head = strconv.FormatUint(rng.Uint64()>>uint(rng.Intn(60)), 10)
	case 3:
		head = randDigits(1 + rng.Intn(30))
	case 4:
		// exact midpoint digits of a random double
		m, e := decompose(randBitsExp() &^ (1 << 63))
		mid := new(big.Int).SetUint64(m)
		mid.Lsh(mid, 1).Add(mid, big.NewInt(1))
		p := exactDecimal(mid, e-1)
		p = strings.TrimLeft(strings.Replace(p, ".", "", 1), "0")
		if len(p) > 780 {
			p = p[:780]
		}
		head = p
	case 5:
		head = strconv.FormatFloat(math.Float64frombits(randBitsExp()&^(1<<63)), 'e', 16, 64)
		head = strings.Replace(head[:18], ".", "", 1)
	}
	head = strings.TrimLeft(head, "0")
	if head == "" {
		head = "7"
	}
	total := 801 + rng.Intn(220)
	if total < len(head)+1 {
		total = len(head) + 1
	}
	var tail string
	switch rng.Intn(4) {
	case 0, 1:
		tail = strings.Repeat("0", total-len(head))
	case 2:
		tail = randDigits(total - len(head))
	case 3:
		z := rng.Intn(total - len(head))
		tail = strings.Repeat("0", z) + randDigits(total-len(head)-z)
	}
	s := maybeSign() + head + tail
	if rng.Intn(3) == 0 {
		s += "." + randDigits(rng.Intn(5))
	}
	// exponent: bring either the true value or the mis-scaled value in range
	var e int
	switch rng.Intn(3) {
	case 0:
		e = -(total - 1) + rng.Intn(600) - 300
	case 1:
		e = -(800 - 1) + rng.Intn(600) - 300
	case 2:
		e = -rng.Intn(1400)
	}
	return s + "e" + strconv.Itoa(e)
}

func randHexFloat() string {
	var sb strings.Builder
	sb.WriteString(maybeSign())
	sb.WriteString([]string{"0x", "0X"}[rng.Intn(2)])
	var n int
	switch rng.Intn(4) {
	case 0:
		n = 1 + rng.Intn(4)
	case 1:
		n = 12 + rng.Intn(8)
	default:
		n = 1 + rng.Intn(30)
	}
	d := randHexDigits(n)
	switch rng.Intn(6) {
	case 0:
		k := rng.Intn(n)
		d = d[:k] + strings.Repeat("0", n-k)
	case 1:
		k := rng.Intn(n)
		d = strings.Repeat("0", k) + d[k:]
	case 2:
		k := rng.Intn(n)
		d = d[:k] + strings.Repeat("f", n-k)
	case 3:
		// 1 followed by zeros and an 8 (tie) optionally followed by sticky digits
		d = "1" + strings.Repeat("0", 12) + []string{"8", "80", "800000001", "7fffffffff", "18", "08", "10", "30"}[rng.Intn(8)]
		n = len(d)
	}
	dot := rng.Intn(n + 1)
	if rng.Intn(3) == 0 {
		sb.WriteString(d)
	} else {
		sb.WriteString(d[:dot] + "." + d[dot:])
	}
	sb.WriteByte("pP"[rng.Intn(2)])
	var e int
	switch rng.Intn(6) {
	case 0:
		e = rng.Intn(40) - 20
	case 1:
		e = -1074 + rng.Intn(24) - 12 - 4*(n-dot)
	case 2:
		e = 1023 + rng.Intn(16) - 8 - 4*dot
	case 3:
		e = -1022 + rng.Intn(16) - 8 - 4*dot
	default:
		e = rng.Intn(2400) - 1200
	}
	if e >= 0 && rng.Intn(2) == 0 {
		sb.WriteByte('+')
	}
	sb.WriteString(strconv.Itoa(e))
	return sb.String()
}

const mutAlphabet = "0123456789+-_.eEpPxXaAbBfFiInNtTyY \x00\xff,"

func mutate(s string) string {
	b := []byte(s)
	n := 1 + rng.Intn(2)
	for ; n > 0; n-- {
		c := mutAlphabet[rng.Intn(len(mutAlphabet))]
		switch op := rng.Intn(3); {
		case op == 0 || len(b) == 0: // insert
			i := rng.Intn(len(b) + 1)
			b = append(b[:i], append([]byte{c}, b[i:]...)...)
		case op == 1: // delete
			i := rng.Intn(len(b))
			b = append(b[:i], b[i+1:]...)
		default: // replace
			b[rng.Intn(len(b))] = c
		}
	}
	return string(b)
}

func randAlphabetString() string {
	const alpha = "0123456789+-_.eExXpP1aAfFiInN"
	n := 1 + rng.Intn(9)
	b := make([]byte, n)
	for i := range b {
		b[i] = alpha[rng.Intn(len(alpha))]
	}
	return string(b)
}

func emitTable() {
	rootB, err := exec.Command("go", "env", "GOROOT").Output()
	if err != nil {
		fmt.Fprintln(os.Stderr, "gen: cannot locate GOROOT, skipping Eisel-Lemire table rows:", err)
		return
	}
	src, err := os.ReadFile(filepath.Join(strings.TrimSpace(string(rootB)), "src", "strconv", "eisel_lemire.go"))
	if err != nil {
		fmt.Fprintln(os.Stderr, "gen: cannot read eisel_lemire.go, skipping table rows:", err)
		return
	}
	re := regexp.MustCompile(`\{0x([0-9A-Fa-f]{16}), 0x([0-9A-Fa-f]{16})\}, // 1e(-?[0-9]+)`)
	for _, m := range re.FindAllStringSubmatch(string(src), -1) {
		fmt.Fprintf(out, "T %s %s%s\n", m[3], m[2], m[1])
		nT++
	}
}

func main() {
	// usage: gen [seed [scale]]
	if len(os.Args) > 1 {
		seed, err := strconv.ParseInt(os.Args[1], 10, 64)
		if err != nil {
			fmt.Fprintln(os.Stderr, "usage: gen [seed [scale]] > cases.txt")
			os.Exit(2)
		}
		rng = rand.New(rand.NewSource(seed))
	}
	if len(os.Args) > 2 {
		k, err := strconv.Atoi(os.Args[2])
		if err != nil || k < 1 {
			fmt.Fprintln(os.Stderr, "usage: gen [seed [scale]] > cases.txt")
			os.Exit(2)
		}
		scale = k
	}
	out = bufio.NewWriterSize(os.Stdout, 1<<20)
	defer out.Flush()

	cat = "table"
	emitTable()

	// ---- fixed interesting values -------------------------------------
	cat = "fixed"
	fixedBits := []uint64{
		0, 1 << 63, 1, 2, 3, 1<<63 | 1,
		0x000FFFFFFFFFFFFF, 0x0010000000000000, 0x0010000000000001, 0x001FFFFFFFFFFFFF, 0x0020000000000000,
		0x7FEFFFFFFFFFFFFF, 0xFFEFFFFFFFFFFFFF, 0x7FEFFFFFFFFFFFFE, 0x7FE0000000000000,
		0x7FF0000000000000, 0xFFF0000000000000, 0x7FF8000000000001, 0x7FF8000000000000, 0xFFF8000000000000, 0x7FF0000000000001, 0xFFFFFFFFFFFFFFFF,
		math.Float64bits(1e-6), math.Float64bits(1e-7), math.Float64bits(1e21), math.Float64bits(1e20), math.Float64bits(1e22), math.Float64bits(1e23),
		math.Float64bits(0.1), math.Float64bits(0.2), math.Float64bits(0.3), math.Float64bits(1.0 / 3), math.Float64bits(5e-324), math.Float64bits(2.2250738585072014e-308),
		math.Float64bits(9007199254740992), math.Float64bits(9007199254740993), math.Float64bits(4503599627370496), math.Float64bits(4503599627370495.5),
		math.Float64bits(123456789012345678), math.Float64bits(1.7976931348623157e308), math.Float64bits(math.Pi), math.Float64bits(math.E),
		math.Float64bits(100), math.Float64bits(1e15), math.Float64bits(1e16), math.Float64bits(1e17), math.Float64bits(123456.789e3),
	}
	for _, b := range fixedBits {
		emitBoth(b)
		emitBoth(b ^ 1<<63)
	}
	for _, th := range []float64{1e-6, 1e-7, 1e-5, 1e21, 1e20, 1e22, 1, 10, 0.5, 2, 1e15, 1e16, 1e17, 9007199254740992} {
		b := math.Float64bits(th)
		for d := -40; d <= 40; d++ {
			emitBoth(uint64(int64(b) + int64(d)))
			emitBoth(uint64(int64(b)+int64(d)) | 1<<63)
		}
	}

	malformed := []string{
		"", "-", "+", ".", "1e", "1e+", "1e-", "0x", "0x1", "0x1p", "0x1p+", "0x1p-", "1_000", "0x_1p0", "0x1_0p0", "infx", "in", "nanx",
		" 1", "1 ", "+inf", "-nan", "+nan", ".5", "5.", "1e400", "-1e400", "1e-400", "-1e-400", "0x1p1024", "0x1p-1080", "00012", "1E5", "0X1P3",
		"inf", "Inf", "INF", "iNf", "-inf", "-INF", "infinity", "Infinity", "INFINITY", "+Infinity", "-infinity", "infinit", "infinityx", "infi", "infin", "infini",
		"nan", "NaN", "NAN", "nAn", "na", "n", "i", "+i", "-in", "+infi", "++inf", "--inf", "+-inf", "inf ", " inf", "nan ", "+n", "-NaN",
		"0", "-0", "+0", "0.0", "-0.0", "0e0", "0e10", "-0e-10", "0.", ".0", "-.0", "+.0", "0x0p0", "-0x0p0", "0x0.0p0", "0x.0p0", "0x0.p0", "0x.p0", "0xp0",
		"1", "-1", "+1", "1.", "1.0", "1.5", "-1.5", "1e0", "1e1", "1e+1", "1e-1", "1e01", "1e+01", "1e-01", "1e001", "1E+5", "1.e5", ".1e5", ".e5", "e5", "1e5.", "1e5e5", "1e5.5",
		"1..5", "1.5.5", "..5", "1.5.", "--1", "++1", "+-1", "-+1", "1-", "1+", "1e--1", "1e++1", "1e+-1",
		"0x1p0", "0x1p1", "0x1p-1", "0x1.8p3", "0X1.8P3", "0x1.8p+3", "0x1.8P-3", "0x.8p1", "0x8.p1", "0x1.p1", "0x1e5", "0x1e5p0", "0x1.8", "0x1.8e3", "0xgp0", "0x1pp1", "0x1p1p1", "0x1p1.0", "0x1p0x1",
		"-0x1p3", "+0x1p3", "0x-1p3", "0x+1p3", "0x0x1p3", "00x1p3", "0x1p03", "0x1p+03", "0x00001p3", "0x1.00000p3", "0xfffffffffffff8p0", "0xfffffffffffffcp0", "0x1fffffffffffffp0", "0x1fffffffffffff8p0",
		"0x1p-1074", "0x1p-1075", "0x1.0000000000001p-1075", "0x1.8p-1075", "0x1p-1076", "0x0.8p-1074", "0x0.8p-1073", "0x1.fffffffffffffp1023", "0x1.fffffffffffff8p1023", "0x1.fffffffffffff7p1023", "0x1.fffffffffffff7ffffffffp1023", "0x1.fffffffffffff80000000001p1023",
		"0x1.0000000000000p-1022", "0x0.fffffffffffffp-1022", "0x0.fffffffffffff8p-1022", "0x0.fffffffffffff7p-1022", "0x1.00000000000008p0", "0x1.00000000000018p0", "0x1.000000000000080000000000000000000001p0",
		"0x10000000000000000p0", "0x100000000000000000000000000000000p-100", "0x0.00000000000000000000000000000001p100", "0x1p99999", "0x1p-99999", "0x1p100000", "0x1p-100000", "0x1p1000000000000000000000", "0x1p-1000000000000000000000",
		"0x0p99999999999", "0x0p-99999999999", "0e99999999999", "0e-99999999999", "0.0e99999999999",
		"1_000", "1_0_0_0", "1__000", "_1000", "1000_", "1_.5", "1._5", "1.5_", "1.5_5", "1_e5", "1e_5", "1e5_", "1e5_0", "1e+5_0", "1e+_5", "1e_+5", "_1", "+_1", "-_1", "1_", "_", "__", "_._", "1_._1",
		"0_1", "0_0", "0_.1", "0._1", "0x_1p0", "0x__1p0", "0x1_p0", "0x1p_0", "0x1p0_", "0x1p0_0", "0x1p+0_0", "0x_p0", "0x_.8p0", "0x._8p0", "0x.8_p0", "0x1_0.0_1p1_0", "0_x1p0", "_0x1p0", "0x1_e5p0", "0xa_bp0", "0xA_Bp0", "0x_ap0", "0xa_p0",
		"0b1", "0b_1", "0o7", "0o_7", "0b1e5", "0b_1e5",
		"1e10000", "1e-10000", "1e99999", "1e-99999", "1e100000", "1e-100000", "1e999999999999999999999", "1e-999999999999999999999", "1e+999999999999999999999",
		"1e0000000000000000000000000005", "1e-0000000000000000000000000005", "0.1e0000000000000000000000000005",
		"179769313486231570814527423731704356798070567525844996598917476803157260780028538760589558632766878171540458953514382464234321326889464182768467546703537516986049910576551282076245490090389328944075868508455133942304583236903222948165808559332123348274797826204144723168738177180919299881250404026184124858368",
		"179769313486231580793728971405303415079934132710037826936173778980444968292764750946649017977587207096330286416692887910946555547851940402630657488671505820681908902000708383676273854845817711531764475730270069855571366959622842914819860834936475292719074168444365510704342711559699508093042880177904174497791",
		"179769313486231580793728971405303415079934132710037826936173778980444968292764750946649017977587207096330286416692887910946555547851940402630657488671505820681908902000708383676273854845817711531764475730270069855571366959622842914819860834936475292719074168444365510704342711559699508093042880177904174497792",
		"179769313486231580793728971405303415079934132710037826936173778980444968292764750946649017977587207096330286416692887910946555547851940402630657488671505820681908902000708383676273854845817711531764475730270069855571366959622842914819860834936475292719074168444365510704342711559699508093042880177904174497791.9999",
		"1.7976931348623157e308", "1.7976931348623158e308", "1.7976931348623159e308", "1.797693134862315807e308", "1.797693134862315808e308", "1.8e308", "2e308", "1e308", "1e309", "-1.7976931348623159e308",
		"4.9406564584124654e-324", "2.4703282292062327e-324", "2.4703282292062328e-324", "2.47032822920623272e-324", "2.4703282292062327208e-324", "2.4703282292062327209e-324", "1e-323", "1e-324", "1e-325", "3e-324", "7.4e-324", "7.5e-324",
		"2.2250738585072011e-308", "2.2250738585072012e-308", "2.2250738585072014e-308", "2.2250738585072009e-308",
		"9007199254740993", "9007199254740992", "9007199254740991", "9007199254740995", "9007199254740993.0", "9007199254740993.00000000000000000001", "9007199254740992.99999999999999999999",
		"0.000001", "0.0000001", "1e-6", "1e-7", "9.999999999999999e-7", "1e21", "1e20", "999999999999999900000", "1000000000000000000000", "100000000000000000000",
		"123456789012345678901234567890", "0.123456789012345678901234567890", "1234567890123456789", "12345678901234567890", "123456789012345678", "18446744073709551615", "18446744073709551616", "9223372036854775807", "9223372036854775808", "9999999999999999999", "99999999999999999999",
		"1e22", "1e23", "1e37", "1e38", "8.41e21", "123456789012345e22", "1234567890123456e22", "1e15", "999999999999999e22", "1e-22", "1e-23", "5e-22",
		"\x00", "1\x00", "\xff", "1\xff", "１", "1,5", "1,000", "0x1p３", "1e５", "NaN\x00", "1\n", "\t1", "1\r\n",
		"true", "false", "null", "Infinity8", "infinity_", "in_f", "n_an", "i_nf",
	}
	cat = "listed"
	for _, s := range malformed {
		emitP(s)
		emitP("-" + s)
		emitP("+" + s)
	}
	// very long inputs
	for _, n := range []int{800, 801, 1000, 5000, 20000, 100000} {
		emitP(strings.Repeat("0", n) + "1")
		emitP("0." + strings.Repeat("0", n) + "1")
		emitP("0." + strings.Repeat("0", n) + "1e" + strconv.Itoa(n))
		emitP("1" + strings.Repeat("0", n))
		emitP("1" + strings.Repeat("0", n) + "e-" + strconv.Itoa(n))
		emitP("1" + strings.Repeat("0", n) + "1e-" + strconv.Itoa(n))
		emitP(strings.Repeat("9", n) + "e-" + strconv.Itoa(n))
		emitP("0x" + strings.Repeat("0", n) + "1p0")
		emitP("0x1" + strings.Repeat("0", n) + "p-" + strconv.Itoa(4*n))
		emitP("0x0." + strings.Repeat("0", n) + "1p" + strconv.Itoa(4*n))
		emitP("0x1" + strings.Repeat("0", n) + "1p-" + strconv.Itoa(4*n))
		emitP("1e" + strings.Repeat("0", n) + "5")
		emitP("1" + strings.Repeat("_0", n))
	}

	// ---- integers ---------------------------------------------------------
	cat = "integers"
	for i := 0; i <= 3000; i++ {
		emitBoth(math.Float64bits(float64(i)))
		emitP(strconv.Itoa(i))
		emitP("-" + strconv.Itoa(i))
	}
	for i := 0; i < 8000*scale; i++ {
		v := rng.Uint64() >> uint(rng.Intn(64))
		emitP(strconv.FormatUint(v, 10))
		emitBoth(math.Float64bits(float64(v)))
		if rng.Intn(2) == 0 {
			emitP(strconv.FormatUint(v, 10) + "e" + strconv.Itoa(rng.Intn(60)-30))
		}
	}
	// integers around 2^53..2^64 (rounding of 17-20 digit integers)
	for i := 0; i < 4000*scale; i++ {
		sh := uint(rng.Intn(12))
		base := uint64(1)<<(53+sh) + uint64(rng.Intn(1<<12))<<sh
		half := uint64(1) << sh >> 1
		for _, d := range []int64{-1, 0, 1} {
			emitP(strconv.FormatUint(base+half+uint64(d), 10))
		}
	}

	// ---- powers of two and neighbours ---------------------------------------
	cat = "pow2"
	for e := -1074; e <= 1023; e++ {
		b := math.Float64bits(math.Ldexp(1, e))
		for d := -2; d <= 2; d++ {
			nb := uint64(int64(b) + int64(d))
			if int64(nb) < 0 {
				continue
			}
			emitBoth(nb)
			if d == 0 || rng.Intn(4) == 0 {
				midpointCases(nb)
			}
		}
		emitP(fmt.Sprintf("0x1p%d", e))
		emitP(fmt.Sprintf("0x1.8p%d", e))
		emitP(fmt.Sprintf("-0x.8p%d", e))
	}

	// ---- powers of ten and neighbours ---------------------------------------
	cat = "pow10"
	for e := -330; e <= 310; e++ {
		s := "1e" + strconv.Itoa(e)
		emitP(s)
		emitP("1" + strings.Repeat("0", 25) + "e" + strconv.Itoa(e-25))
		emitP("0." + strings.Repeat("0", 25) + "1e" + strconv.Itoa(e+26))
		f, err := strconv.ParseFloat(s, 64)
		if err != nil || f == 0 {
			continue
		}
		b := math.Float64bits(f)
		for d := -3; d <= 3; d++ {
			nb := uint64(int64(b) + int64(d))
			if int64(nb) <= 0 {
				continue
			}
			emitBoth(nb)
		}
		for m := 1; m <= 9; m++ {
			emitP(strconv.Itoa(m) + "e" + strconv.Itoa(e))
			g, err := strconv.ParseFloat(strconv.Itoa(m)+"e"+strconv.Itoa(e), 64)
			if err == nil {
				emitBoth(math.Float64bits(g))
			}
		}
	}

	// ---- short decimals -----------------------------------------------------
	cat = "shortdec"
	for i := 0; i < 40000*scale; i++ {
		s := randShortDecimal()
		emitP(s)
		if f, err := strconv.ParseFloat(s, 64); err == nil {
			emitF(math.Float64bits(f))
		}
	}
	for i := 0; i < 5000*scale; i++ {
		emitP(insertUnderscores(randShortDecimal()))
	}

	// ---- random bit patterns --------------------------------------------------
	cat = "randbits"
	for i := 0; i < 50000*scale; i++ {
		emitBoth(randBits())
	}
	cat = "randexp"
	for i := 0; i < 50000*scale; i++ {
		emitBoth(randBitsExp())
	}
	cat = "subnormal"
	for i := 0; i < 8000*scale; i++ {
		b := rng.Uint64() & (1<<52 - 1) >> uint(rng.Intn(52))
		emitBoth(b | uint64(rng.Intn(2))<<63)
	}

	// ---- few significant bits: exact ties between shortest candidates ----------
	// (e.g. 2^50+0.25 must print as ...624.2 and 2^50+0.75 as ...624.8)
	cat = "fewbits"
	for _, f := range []float64{1125899906842624.25, 1125899906842624.75, 2251799813685248.5, 2251799813685249.5, 562949953421312.125, 562949953421312.375} {
		emitBoth(math.Float64bits(f))
	}
	for ef := uint64(880); ef <= 1100; ef++ {
		for tz := uint(0); tz <= 52; tz++ {
			for r := 0; r < 3*scale; r++ {
				m := (rng.Uint64()&(1<<52-1))>>tz | 1
				m = m << tz & (1<<52 - 1)
				emitBoth(ef<<52 | m | uint64(rng.Intn(2))<<63)
			}
		}
	}

	// ---- halfway cases ------------------------------------------------------
	cat = "midpoint"
	for i := 0; i < 2500*scale; i++ {
		midpointCases(randBitsExp())
	}
	for i := 0; i < 300*scale; i++ {
		midpointCases(rng.Uint64() & (1<<52 - 1) >> uint(rng.Intn(52))) // subnormals
	}
	midpointCases(0)                  // half the smallest subnormal
	midpointCases(0x000FFFFFFFFFFFFF) // largest subnormal / smallest normal
	midpointCases(0x7FEFFFFFFFFFFFFE)
	midpointCases(0x7FEFFFFFFFFFFFFF) // overflow threshold

	// ---- long digit strings ---------------------------------------------------
	cat = "longdec"
	for i := 0; i < 12000*scale; i++ {
		emitP(randLongDecimal(60))
	}
	for i := 0; i < 6000*scale; i++ {
		emitP(randLongDecimal(1000))
	}
	cat = "bigint800"
	for i := 0; i < 6000*scale; i++ {
		emitP(bigIntegerPart())
	}

	// ---- hex floats -------------------------------------------------------------
	cat = "hex"
	for i := 0; i < 25000*scale; i++ {
		s := randHexFloat()
		emitP(s)
		if i%5 == 0 {
			emitP(insertUnderscores(s))
		}
	}

	// ---- syntax fuzzing -----------------------------------------------------------
	cat = "mutation"
	for i := 0; i < 30000*scale; i++ {
		var base string
		switch rng.Intn(5) {
		case 0:
			base = randShortDecimal()
		case 1:
			base = randHexFloat()
		case 2:
			base = []string{"inf", "Infinity", "nan", "-inf", "+Inf", "NaN", "+infinity"}[rng.Intn(7)]
		case 3:
			base = jsonText(math.Float64frombits(randBitsExp()))
		case 4:
			base = insertUnderscores(randShortDecimal())
		}
		emitP(mutate(base))
	}
	cat = "alphabet"
	for i := 0; i < 30000*scale; i++ {
		emitP(randAlphabetString())
	}

	out.Flush()
	fmt.Fprintf(os.Stderr, "parse cases: %d  format cases: %d  table rows: %d  total lines: %d\n", nP, nF, nT, nP+nF+nT)
	keys := make([]string, 0, len(counts))
	for k := range counts {
		keys = append(keys, k)
	}
	// simple insertion sort to avoid another import
	for i := 1; i < len(keys); i++ {
		for j := i; j > 0 && keys[j] < keys[j-1]; j-- {
			keys[j], keys[j-1] = keys[j-1], keys[j]
		}
	}
	for _, k := range keys {
		fmt.Fprintf(os.Stderr, "  %-14s %d\n", k, counts[k])
	}
}
