package main

// Allowlist of functions outside the package that do not mutate (some of)
// their operands.  Everything else outside the package is assumed to write
// to every pointer, slice, map or interface operand it receives.

import (
	"sort"
	"strings"
)

// allowExact: full name -> operand indices that ARE still written
// (nil: none).  Index -1 is the receiver, 0.. are the arguments.
var allowExact = map[string][]int{
	"fmt.Sprintf": nil, "fmt.Errorf": nil, "fmt.Sprint": nil, "fmt.Sprintln": nil,
	"errors.New":              nil,
	"encoding/json.Marshal":   nil,
	"encoding/json.Unmarshal": {1}, // reads its []byte, writes through its second argument
	"reflect.ValueOf":         nil, "reflect.TypeOf": nil, "reflect.DeepEqual": nil,
	"(reflect.Value).Kind": nil, "(reflect.Value).Len": nil, "(reflect.Value).Index": nil,
	"(reflect.Value).Interface": nil, "(reflect.Value).IsNil": nil, "(reflect.Value).IsValid": nil,
	"(reflect.Value).Elem": nil, "(reflect.Value).FieldByName": nil, "(reflect.Value).CanInterface": nil,
	"(reflect.Type).Kind": nil, "(reflect.Kind).String": nil,
	"(error).Error": nil,
}

// allowPkgs: every package-level function (not method) of these packages.
var allowPkgs = []string{"math", "strconv", "strings", "unicode", "unicode/utf8"}

// allowed reports whether a call to name leaves operand idx unwritten.
func allowed(name string, idx int) bool {
	if w, ok := allowExact[name]; ok {
		for _, i := range w {
			if i == idx {
				return false
			}
		}
		return true
	}
	if !strings.HasPrefix(name, "(") {
		if i := strings.LastIndex(name, "."); i >= 0 {
			for _, p := range allowPkgs {
				if name[:i] == p {
					return true
				}
			}
		}
	}
	return false
}

func allowlistText() []string {
	var out []string
	for k, w := range allowExact {
		if w != nil {
			k += " (only argument 0; argument 1 is written)"
		}
		out = append(out, k)
	}
	for _, p := range allowPkgs {
		out = append(out, p+".* (package-level functions)")
	}
	sort.Strings(out)
	return out
}
