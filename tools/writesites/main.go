// writesites lists every memory write reachable from the public entry points
// of the go-jmespath package together with the origin of the written object,
// and emits the list as a Lean 4 file.  See README.md.
package main

import (
	"fmt"
	"go/types"
	"os"
	"path/filepath"
	"sort"
	"strings"

	"golang.org/x/tools/go/callgraph/cha"
	"golang.org/x/tools/go/packages"
	"golang.org/x/tools/go/ssa"
	"golang.org/x/tools/go/ssa/ssautil"
)

var rootNames = []string{"Search", "Compile", "MustCompile", "(*JMESPath).Search", "NewParser", "(*Parser).Parse", "NewLexer"}

type analyzer struct {
	prog      *ssa.Program
	pkg       *ssa.Package
	fns       []*ssa.Function // reachable package functions, sorted by name
	entry     map[*ssa.Function]bool
	callees   map[ssa.CallInstruction][]*ssa.Function // in-package callees per site
	paramOrg  map[*ssa.Parameter]org
	retOrg    map[*ssa.Function][]org
	bad       map[string]string       // per-call receiver type -> why it is not per-call after all
	entryRecv map[string]bool         // receiver types of entry-point methods
	recvSites map[*ssa.Parameter]bool // receiver parameters with at least one in-package call site
	recvOrg   map[*ssa.Parameter]org  // join of the receiver operands at those call sites
}

type record struct {
	fn, file  string
	line, col int
	kind      string
	o         Origin
	detail    string
}

var outPath = "/verif/lean/Jmes/GeneratedWrites.lean"

func refuse(what string, why interface{}) {
	fmt.Fprintf(os.Stderr, "writesites: cannot %s: %v\n", what, why)
	os.Remove(outPath) // never leave a stale result behind
	os.Exit(3)
}

func typeOf(v interface{}) string { return fmt.Sprintf("%T", v) }

var thePkg *types.Package

func fnName(f *ssa.Function) string { return f.RelString(thePkg) }

func main() {
	repo := "/repo"
	if len(os.Args) > 1 {
		repo = os.Args[1]
	}
	if len(os.Args) > 2 {
		outPath = os.Args[2]
	}
	a := load(repo)
	a.reach()
	a.fixpoint()
	recs := a.records()
	if err := os.WriteFile(outPath, []byte(a.render(repo, recs)), 0o644); err != nil {
		refuse("write "+outPath, err)
	}
}

func load(repo string) *analyzer {
	cfg := &packages.Config{Mode: packages.LoadAllSyntax, Dir: repo}
	pkgs, err := packages.Load(cfg, ".")
	if err != nil {
		refuse("load the package in "+repo, err)
	}
	if len(pkgs) != 1 {
		refuse("load the package in "+repo, fmt.Sprintf("expected one package, found %d", len(pkgs)))
	}
	var errs []string
	packages.Visit(pkgs, nil, func(p *packages.Package) {
		for _, e := range p.Errors {
			errs = append(errs, e.Error())
		}
	})
	if len(errs) > 0 {
		refuse("load and type-check the package in "+repo, fmt.Sprintf("%s (%d errors)", errs[0], len(errs)))
	}
	defer func() {
		if r := recover(); r != nil {
			refuse("build SSA for "+repo, r)
		}
	}()
	prog, spkgs := ssautil.AllPackages(pkgs, 0)
	if len(spkgs) != 1 || spkgs[0] == nil {
		refuse("build SSA for "+repo, "no SSA package")
	}
	prog.Build()
	thePkg = spkgs[0].Pkg
	return &analyzer{prog: prog, pkg: spkgs[0], entry: map[*ssa.Function]bool{},
		callees: map[ssa.CallInstruction][]*ssa.Function{}, paramOrg: map[*ssa.Parameter]org{},
		retOrg: map[*ssa.Function][]org{}, bad: map[string]string{}}
}

func (a *analyzer) inPkg(f *ssa.Function) bool {
	if f == nil {
		return false
	}
	return f.Pkg == a.pkg || (f.Synthetic != "" && f.Object() != nil && f.Object().Pkg() == a.pkg.Pkg)
}

func (a *analyzer) lookup(name string) *ssa.Function {
	if strings.HasPrefix(name, "(*") {
		i := strings.Index(name, ").")
		if tm := a.pkg.Type(name[2:i]); tm != nil {
			return a.prog.LookupMethod(types.NewPointer(tm.Type()), a.pkg.Pkg, name[i+2:])
		}
		return nil
	}
	return a.pkg.Func(name)
}

// reach collects the functions reachable from the roots through CHA edges that
// stay inside the package, plus methods of package types handed to calls that
// leave the package (callbacks such as sort.Interface).
func (a *analyzer) reach() {
	cg := cha.CallGraph(a.prog)
	seen := map[*ssa.Function]bool{}
	var work []*ssa.Function
	push := func(f *ssa.Function, entry bool) {
		if entry {
			a.entry[f] = true
		}
		if !seen[f] {
			seen[f] = true
			work = append(work, f)
		}
	}
	for _, n := range rootNames {
		f := a.lookup(n)
		if f == nil {
			refuse("find root function "+n, "not declared in package "+a.pkg.Pkg.Path())
		}
		push(f, true)
	}
	for len(work) > 0 {
		f := work[0]
		work = work[1:]
		if n := cg.Nodes[f]; n != nil {
			for _, e := range n.Out {
				if c := e.Callee.Func; a.inPkg(c) && e.Site != nil {
					dup := false
					for _, x := range a.callees[e.Site] {
						dup = dup || x == c
					}
					if !dup {
						a.callees[e.Site] = append(a.callees[e.Site], c)
					}
					push(c, false)
				}
			}
		}
		for _, b := range f.Blocks {
			for _, in := range b.Instrs {
				site, ok := in.(ssa.CallInstruction)
				if !ok || (!site.Common().IsInvoke() && a.inPkg(site.Common().StaticCallee())) {
					continue
				}
				if _, isBuiltin := site.Common().Value.(*ssa.Builtin); isBuiltin {
					continue
				}
				_, ops := a.callOperands(site)
				for _, op := range ops { // look inside a varargs slice too
					if al, ok := localRoot(op).(*ssa.Alloc); ok && al.Comment == "varargs" {
						for _, r := range *al.Referrers() {
							if ia, ok := r.(*ssa.IndexAddr); ok {
								for _, s := range *ia.Referrers() {
									if st, ok := s.(*ssa.Store); ok {
										ops = append(ops, st.Val)
									}
								}
							}
						}
					}
				}
				for _, op := range ops {
					for {
						if mi, ok := op.(*ssa.MakeInterface); ok {
							op = mi.X
						} else if ct, ok := op.(*ssa.ChangeType); ok {
							op = ct.X
						} else {
							break
						}
					}
					t := op.Type()
					base := t
					if p, ok := t.(*types.Pointer); ok {
						base = p.Elem()
					}
					if n, ok := base.(*types.Named); !ok || n.Obj().Pkg() != a.pkg.Pkg {
						continue
					}
					ms := a.prog.MethodSets.MethodSet(t)
					for i := 0; i < ms.Len(); i++ {
						if m := a.prog.MethodValue(ms.At(i)); m != nil {
							push(m, true)
						}
					}
				}
			}
		}
	}
	for f := range seen {
		a.fns = append(a.fns, f)
		a.retOrg[f] = make([]org, f.Signature.Results().Len())
	}
	sort.Slice(a.fns, func(i, j int) bool { return fnName(a.fns[i]) < fnName(a.fns[j]) })
	for site, cs := range a.callees {
		sort.Slice(cs, func(i, j int) bool { return fnName(cs[i]) < fnName(cs[j]) })
		a.callees[site] = cs
	}
}

// callOperands names the callee of a call and lists its operands, receiver
// first; recvShift is 1 when operand 0 is the receiver.
func (a *analyzer) callOperands(site ssa.CallInstruction) (string, []ssa.Value) {
	c := site.Common()
	if c.IsInvoke() {
		return "(" + a.typeName(c.Value.Type()) + ")." + c.Method.Name(), append([]ssa.Value{c.Value}, c.Args...)
	}
	if f := c.StaticCallee(); f != nil {
		return fnName(f), c.Args
	}
	return "dynamic " + a.typeName(c.Value.Type()), c.Args
}

func (a *analyzer) recvShift(site ssa.CallInstruction) int {
	c := site.Common()
	if c.IsInvoke() || (c.StaticCallee() != nil && c.StaticCallee().Signature.Recv() != nil) {
		return 1
	}
	return 0
}

func instrs(f *ssa.Function, visit func(ssa.Instruction)) {
	for _, b := range f.Blocks {
		for _, in := range b.Instrs {
			visit(in)
		}
	}
}

// fixpoint computes, from the bottom element fresh upwards: the origin of every
// result of every function, the origin of every non-receiver parameter as the
// join over all call sites, and whether the sorters' items are always fresh.
func (a *analyzer) fixpoint() {
	entryRecv := map[string]bool{} // receiver types of entry-point methods
	for f := range a.entry {
		if f.Signature.Recv() != nil {
			entryRecv[a.typeName(f.Params[0].Type())] = true
		}
	}
	a.entryRecv, a.recvSites, a.recvOrg = entryRecv, map[*ssa.Parameter]bool{}, map[*ssa.Parameter]org{}
	for _, f := range a.fns {
		instrs(f, func(in ssa.Instruction) {
			if ci, ok := in.(ssa.CallInstruction); ok {
				for _, callee := range a.callees[ci] {
					if callee.Signature.Recv() != nil && len(callee.Params) > 0 {
						a.recvSites[callee.Params[0]] = true
					}
				}
			}
		})
	}
	for changed := true; changed; {
		changed = false
		for _, f := range a.fns {
			instrs(f, func(in ssa.Instruction) {
				switch in := in.(type) {
				case *ssa.Return:
					for i, r := range in.Results {
						if o := a.origin(r, seenSet{}); o.o > a.retOrg[f][i].o {
							a.retOrg[f][i], changed = o, true
						}
					}
				case *ssa.Store:
					fa, ok := in.Addr.(*ssa.FieldAddr)
					if !ok {
						return
					}
					tn := a.typeName(fa.X.Type())
					st, _ := fa.X.Type().Underlying().(*types.Pointer).Elem().Underlying().(*types.Struct)
					_, isSlice := st.Field(fa.Field).Type().Underlying().(*types.Slice)
					if a.isSorter(fa.X.Type()) && a.bad[tn] == "" && (st.Field(fa.Field).Name() == "items" || isSlice) {
						if o := a.origin(in.Val, seenSet{}); o.o > CallLocal {
							a.bad[tn], changed = "items initialised from "+originNames[o.o]+" "+clip(o.path, 40)+" in "+fnName(f), true
						}
					}
				case ssa.CallInstruction:
					_, ops := a.callOperands(in)
					for _, callee := range a.callees[in] {
						for j, p := range callee.Params {
							if j >= len(ops) || !pointerLike(p.Type()) {
								continue
							}
							if j == 0 && callee.Signature.Recv() != nil {
								tn := a.typeName(p.Type())
								own, _ := ops[0].(*ssa.Parameter) // forwarding one's own receiver is fine
								if a.isPerCall(p.Type()) && !entryRecv[tn] && a.bad[tn] == "" && (own == nil || len(f.Params) == 0 || own != f.Params[0]) {
									if o := a.origin(ops[0], seenSet{}); o.o > Fresh {
										a.bad[tn], changed = "receiver "+clip(o.path, 40)+" in "+fnName(f)+" is "+originNames[o.o]+", not created during the call", true
									}
								}
								if !a.isPerCall(p.Type()) && !entryRecv[tn] {
									o := a.origin(ops[0], seenSet{})
									if cur, ok := a.recvOrg[p]; !ok || o.o > cur.o {
										a.recvOrg[p], changed = o, true
									}
								}
								continue
							}
							o := a.origin(ops[j], seenSet{})
							if cur, ok := a.paramOrg[p]; !ok || o.o > cur.o {
								a.paramOrg[p], changed = o, true
							}
						}
					}
				}
			})
		}
	}
}

func refType(t types.Type) bool {
	switch t.Underlying().(type) {
	case *types.Pointer, *types.Slice, *types.Map, *types.Interface:
		return true
	}
	return false
}

func (a *analyzer) records() []record {
	var recs []record
	for _, f := range a.fns {
		if f.Synthetic != "" {
			continue // wrappers have no source text; what they call is analysed
		}
		last := f.Pos()
		instrs(f, func(in ssa.Instruction) {
			if in.Pos().IsValid() {
				last = in.Pos()
			}
			emit := func(kind string, o org, detail string) {
				p := a.prog.Fset.Position(last)
				recs = append(recs, record{fnName(f), filepath.Base(p.Filename), p.Line, p.Column, kind, o.o, detail})
			}
			switch in := in.(type) {
			case *ssa.Store:
				o := a.origin(in.Addr, seenSet{})
				emit("store", o, o.detail())
			case *ssa.MapUpdate:
				o := a.origin(in.Map, seenSet{})
				emit("mapupdate", o, o.detail())
			case ssa.CallInstruction:
				c := in.Common()
				if b, ok := c.Value.(*ssa.Builtin); ok {
					switch b.Name() {
					case "append", "copy", "delete":
						o := a.origin(c.Args[0], seenSet{})
						if isNilConst(c.Args[0]) {
							o = org{Fresh, "nil", "nil slice, append allocates"}
						}
						emit(b.Name(), o, o.detail())
					}
					return
				}
				if len(a.callees[in]) > 0 && !c.IsInvoke() {
					return // stays inside the package: the callee's own writes are listed
				}
				name, ops := a.callOperands(in)
				var worst org
				var parts []string
				for i, op := range ops {
					idx := i - a.recvShift(in)
					if !refType(op.Type()) || allowed(name, idx) {
						continue
					}
					o := a.origin(op, seenSet{})
					label := fmt.Sprintf("arg %d", idx)
					if idx < 0 {
						label = "receiver"
					}
					parts = append(parts, label+" = "+o.detail())
					if len(parts) == 1 || o.o > worst.o {
						worst = o
					}
				}
				if len(parts) > 0 {
					emit("call:"+name, worst, strings.Join(parts, "; "))
				}
			}
		})
	}
	key := func(r record) string {
		return fmt.Sprintf("%s:%07d:%05d:%s:%s:%s", r.file, r.line, r.col, r.kind, r.fn, r.detail)
	}
	sort.SliceStable(recs, func(i, j int) bool { return key(recs[i]) < key(recs[j]) })
	return recs
}

func leanStr(s string) string {
	s = strings.NewReplacer(`\`, `\\`, `"`, `\"`, "\n", " ", "\t", " ").Replace(s)
	return `"` + s + `"`
}

func (a *analyzer) render(repo string, recs []record) string {
	var sb strings.Builder
	counts := make([]int, len(originNames))
	for _, r := range recs {
		counts[r.o]++
	}
	fmt.Fprintf(&sb, "-- GENERATED by /verif/tools/writesites from %s (working tree). Do not edit.\n", repo)
	fmt.Fprintf(&sb, "-- package %s; roots: %s\n", a.pkg.Pkg.Path(), strings.Join(rootNames, ", "))
	fmt.Fprintf(&sb, "-- %d reachable package functions, %d write sites:", len(a.fns), len(recs))
	for i, n := range originNames {
		fmt.Fprintf(&sb, " %s=%d", n, counts[i])
	}
	sb.WriteString("\n-- per-call receiver types: *Lexer, *Parser, *byExprFloat, *byExprString (sorters only while every\n")
	sb.WriteString("--   store into their items field is fresh/callLocal)\n")
	sb.WriteString("-- calls leaving the package write to every pointer/slice/map/interface operand, except (allowlist):\n")
	for _, l := range allowlistText() {
		sb.WriteString("--   " + l + "\n")
	}
	sb.WriteString("namespace Jmes.GeneratedWrites\n\ninductive Origin where\n  | fresh | callLocal | param | receiver | global | unknown\n  deriving DecidableEq, Repr\n\n")
	sb.WriteString("structure WriteSite where\n  fn : String        -- e.g. \"(*Parser).advance\", \"jpfSortBy\"\n  pos : String       -- \"parser.go:574:2\"\n" +
		"  kind : String      -- \"store\" | \"mapupdate\" | \"append\" | \"copy\" | \"delete\" | \"call:<pkg.Func>\"\n  origin : Origin\n" +
		"  detail : String    -- short human-readable trace of the origin walk\n  deriving Repr\n\n")
	sb.WriteString("def writeSites : List WriteSite := [\n")
	for i, r := range recs {
		sep := ","
		if i == len(recs)-1 {
			sep = ""
		}
		fmt.Fprintf(&sb, "  { fn := %s, pos := %s, kind := %s, origin := .%s, detail := %s }%s\n", leanStr(r.fn),
			leanStr(fmt.Sprintf("%s:%d:%d", r.file, r.line, r.col)), leanStr(r.kind), originNames[r.o], leanStr(r.detail), sep)
	}
	sb.WriteString("]\n\nend Jmes.GeneratedWrites\n")
	return sb.String()
}
