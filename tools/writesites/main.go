package main

import (
	"fmt"
	"os"

	"golang.org/x/tools/go/callgraph/cha"
	"golang.org/x/tools/go/packages"
	"golang.org/x/tools/go/ssa"
	"golang.org/x/tools/go/ssa/ssautil"
)

func main() {
	cfg := &packages.Config{Mode: packages.LoadAllSyntax, Dir: os.Args[1]}
	pkgs, err := packages.Load(cfg, ".")
	if err != nil {
		panic(err)
	}
	prog, sp := ssautil.AllPackages(pkgs, ssa.InstantiateGenerics)
	prog.Build()
	_ = cha.CallGraph
	fmt.Println(sp[0].Pkg.Path(), len(sp[0].Members))
}
