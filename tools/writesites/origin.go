package main

// Origin walk: where does the object behind a written address come from?

import (
	"go/token"
	"go/types"
	"strings"

	"golang.org/x/tools/go/ssa"
)

type Origin int

const (
	Fresh Origin = iota
	CallLocal
	Param
	Receiver
	Global
	Unknown
)

var originNames = []string{"fresh", "callLocal", "param", "receiver", "global", "unknown"}

// org is an origin together with a human-readable access path and reason.
type org struct {
	o    Origin
	path string
	why  string
}

func (x org) detail() string { return clip(x.path, 70) + " (" + clip(x.why, 170) + ")" }
func (x org) wrap(suffix string) org {
	x.path += suffix
	return x
}

func clip(s string, n int) string {
	if len(s) > n {
		return s[:n-3] + "..."
	}
	return s
}

// join returns the worse of two origins (the first one wins ties).
func join(a, b org) org {
	if b.o > a.o {
		return b
	}
	return a
}

// perCall lists the receiver types that are per-call objects.  A receiver of
// such a type counts as callLocal unless analyzer.bad has an objection:
//   - sorters: some store into their items field is not fresh/callLocal;
//   - types none of whose methods is an entry point (*Lexer): some in-package
//     call passes a receiver that was not freshly created during the call;
//   - *Parser is the receiver of the entry point Parse: per-call by decree.
var perCall = map[string]bool{"*Lexer": true, "*Parser": true, "*byExprFloat": true, "*byExprString": true}
var sorters = map[string]bool{"*byExprFloat": true, "*byExprString": true}

// isSorter: a pointer to a package struct type with the methods of sort.Interface (Len, Less, Swap) — the
// two sorters of functions.go by name, and any type of the same shape a rewrite introduces.
func (a *analyzer) isSorter(t types.Type) bool {
	if sorters[a.typeName(t)] {
		return true
	}
	pt, ok := t.(*types.Pointer)
	if !ok {
		return false
	}
	if _, ok := pt.Elem().Underlying().(*types.Struct); !ok {
		return false
	}
	ms := a.prog.MethodSets.MethodSet(t)
	n := 0
	for _, name := range []string{"Len", "Less", "Swap"} {
		if ms.Lookup(a.pkg.Pkg, name) != nil {
			n++
		}
	}
	return n == 3
}

func (a *analyzer) isPerCall(t types.Type) bool { return perCall[a.typeName(t)] || a.isSorter(t) }

// pointerLike reports whether a value of type t can give access to shared
// mutable memory.  Strings are immutable and count as plain values.
func pointerLike(t types.Type) bool {
	switch u := t.Underlying().(type) {
	case *types.Basic:
		return u.Kind() == types.UnsafePointer
	case *types.Struct:
		for i := 0; i < u.NumFields(); i++ {
			if pointerLike(u.Field(i).Type()) {
				return true
			}
		}
		return false
	case *types.Array:
		return pointerLike(u.Elem())
	case *types.Tuple:
		for i := 0; i < u.Len(); i++ {
			if pointerLike(u.At(i).Type()) {
				return true
			}
		}
		return false
	}
	return true // pointer, slice, map, chan, func, interface, type parameter
}

func isString(t types.Type) bool {
	b, ok := t.Underlying().(*types.Basic)
	return ok && b.Info()&types.IsString != 0
}

func isNilConst(v ssa.Value) bool {
	c, ok := v.(*ssa.Const)
	return ok && c.Value == nil
}

func (a *analyzer) typeName(t types.Type) string {
	return types.TypeString(t, func(p *types.Package) string {
		if p == a.pkg.Pkg {
			return ""
		}
		return p.Name()
	})
}

type seenSet map[ssa.Value]bool

// origin computes the origin of the object v refers to.
func (a *analyzer) origin(v ssa.Value, seen seenSet) org {
	if !pointerLike(v.Type()) {
		return org{Fresh, v.Name(), "plain value of type " + a.typeName(v.Type()) + ", no shared memory behind it"}
	}
	if seen[v] {
		return org{Fresh, v.Name(), "cycle"}
	}
	seen[v] = true
	defer delete(seen, v)
	switch v := v.(type) {
	case *ssa.Alloc:
		return org{Fresh, v.Comment, "fresh alloc of " + a.typeName(v.Type().(*types.Pointer).Elem())}
	case *ssa.MakeSlice, *ssa.MakeMap, *ssa.MakeChan, *ssa.MakeClosure:
		return org{Fresh, "make", "fresh " + a.typeName(v.Type())}
	case *ssa.Const:
		return org{Fresh, "nil", "constant"}
	case *ssa.Function, *ssa.Builtin:
		return org{Fresh, v.Name(), "function value"}
	case *ssa.Global:
		return org{Global, v.Pkg.Pkg.Name() + "." + v.Name(), "package-level variable"}
	case *ssa.Parameter:
		return a.param(v)
	case *ssa.FieldAddr:
		f := v.X.Type().Underlying().(*types.Pointer).Elem().Underlying().(*types.Struct).Field(v.Field)
		return a.origin(v.X, seen).wrap("." + f.Name())
	case *ssa.Field:
		f := v.X.Type().Underlying().(*types.Struct).Field(v.Field)
		return a.origin(v.X, seen).wrap("." + f.Name())
	case *ssa.IndexAddr:
		return a.origin(v.X, seen).wrap("[i]")
	case *ssa.Index:
		return a.load(v.X, v.Type(), seen).wrap("[i]")
	case *ssa.Lookup:
		return a.load(v.X, v.Type(), seen).wrap("[k]")
	case *ssa.Slice:
		return a.origin(v.X, seen).wrap("[:]")
	case *ssa.ChangeType, *ssa.ChangeInterface, *ssa.MakeInterface, *ssa.SliceToArrayPointer, *ssa.Range:
		return a.origin(*v.(ssa.Instruction).Operands(nil)[0], seen) // same object, other static type
	case *ssa.Convert:
		if isString(v.X.Type()) || isString(v.Type()) {
			return org{Fresh, "convert", "string conversion copies"}
		}
		return a.origin(v.X, seen)
	case *ssa.TypeAssert:
		return a.origin(v.X, seen).wrap(".(" + a.typeName(v.AssertedType) + ")")
	case *ssa.Phi:
		res := org{Fresh, v.Comment, "phi"}
		for i, e := range v.Edges {
			_, isConst := e.(*ssa.Const)
			if o := a.origin(e, seen); i == 0 || o.o > res.o || (o.o == res.o && res.path == "nil" && !isConst) {
				res = o
			}
		}
		return res
	case *ssa.UnOp:
		switch v.Op {
		case token.MUL:
			return a.load(v.X, v.Type(), seen)
		case token.ARROW:
			return a.origin(v.X, seen).wrap("<-")
		}
		return org{Fresh, v.Name(), "arithmetic"}
	case *ssa.BinOp:
		return org{Fresh, v.Name(), "arithmetic"}
	case *ssa.Next:
		return a.origin(v.Iter, seen)
	case *ssa.Extract:
		switch t := v.Tuple.(type) {
		case *ssa.Call:
			return a.callResult(t, v.Index, seen)
		case *ssa.Next:
			if r, ok := t.Iter.(*ssa.Range); ok {
				return a.load(r.X, v.Type(), seen).wrap("[range]")
			}
		case *ssa.Lookup:
			return a.load(t.X, v.Type(), seen).wrap("[k]")
		case *ssa.TypeAssert:
			return a.origin(t.X, seen).wrap(".(" + a.typeName(t.AssertedType) + ")")
		case *ssa.UnOp:
			return a.origin(t.X, seen).wrap("<-")
		}
		return org{Unknown, v.Name(), "extract from " + v.Tuple.String()}
	case *ssa.Call:
		return a.callResult(v, 0, seen)
	}
	return org{Unknown, v.Name(), "walk does not understand " + strings.TrimPrefix(strings.TrimPrefix(typeOf(v), "*"), "ssa.")}
}

// param: receivers are classified by their named type, entry-point parameters
// stay param, every other parameter is the join of its arguments at all call
// sites (computed by the fixpoint in analyze).
func (a *analyzer) param(v *ssa.Parameter) org {
	fn := v.Parent()
	if fn.Signature.Recv() != nil && len(fn.Params) > 0 && fn.Params[0] == v {
		tn := a.typeName(v.Type())
		if a.isPerCall(v.Type()) && a.bad[tn] == "" {
			return org{CallLocal, v.Name(), "receiver " + tn + ", per-call object"}
		}
		why := "receiver " + tn
		if a.isPerCall(v.Type()) {
			why += ", not per-call: " + a.bad[tn]
		} else if !a.entryRecv[tn] && a.recvSites[v] {
			// a method of a type none of whose methods is an entry point, called inside the package: the
			// receiver is the join of the receiver operands at all its call sites (a method that only the
			// constructor calls on the object it has just allocated writes to a fresh object)
			o, ok := a.recvOrg[v]
			if !ok {
				o = org{Fresh, v.Name(), "no call site evaluated yet"}
			}
			return org{o.o, v.Name(), "receiver of " + fnName(fn) + ", worst call site passes " + clip(o.path, 40) + " [" + firstClause(o.why) + "]"}
		}
		return org{Receiver, v.Name(), why}
	}
	if a.entry[fn] {
		return org{Param, v.Name(), "parameter of entry point " + fnName(fn)}
	}
	if o, ok := a.paramOrg[v]; ok {
		return org{o.o, v.Name(), "parameter of " + fnName(fn) + ", worst call site passes " + clip(o.path, 40) + " [" + firstClause(o.why) + "]"}
	}
	return org{Fresh, v.Name(), "parameter of " + fnName(fn) + ", no call site seen"}
}

func firstClause(s string) string {
	if i := strings.Index(s, ", worst call site"); i >= 0 {
		s = s[:i]
	}
	return clip(s, 50)
}

// localRoot strips address arithmetic; it returns the fresh local container
// (Alloc, MakeSlice, MakeMap of this function) that x points into, or nil.
func localRoot(x ssa.Value) ssa.Value {
	for {
		switch v := x.(type) {
		case *ssa.FieldAddr:
			x = v.X
		case *ssa.IndexAddr:
			x = v.X
		case *ssa.Slice:
			x = v.X
		case *ssa.Alloc, *ssa.MakeSlice, *ssa.MakeMap:
			return v
		default:
			return nil
		}
	}
}

// load is the origin of a value of type t read out of the container x.
func (a *analyzer) load(x ssa.Value, t types.Type, seen seenSet) org {
	if !pointerLike(t) {
		return org{Fresh, x.Name(), "plain value of type " + a.typeName(t) + ", no shared memory behind it"}
	}
	if r := localRoot(x); r != nil {
		return a.stored(r, seen)
	}
	o := a.origin(x, seen)
	if _, isIface := t.Underlying().(*types.Interface); isIface && o.o <= CallLocal {
		return org{Param, o.path, "interface element of a " + originNames[o.o] + " container, may alias caller data; container: " + firstClause(o.why)}
	}
	return o
}

// stored joins the origins of everything this function visibly stores into the
// local container r.  If r is handed to a call that may store into it, or its
// address is stored elsewhere, the contents count as param.
func (a *analyzer) stored(r ssa.Value, seen seenSet) org {
	name := r.Name()
	if al, ok := r.(*ssa.Alloc); ok {
		name = al.Comment
	}
	res := org{Fresh, name, "local container, only fresh or plain values stored"}
	if seen[r] {
		return res
	}
	seen[r] = true
	defer delete(seen, r)
	escapes := ""
	derived := map[ssa.Value]bool{r: true}
	work := []ssa.Value{r}
	add := func(v ssa.Value) {
		if !derived[v] {
			derived[v] = true
			work = append(work, v)
		}
	}
	for len(work) > 0 {
		d := work[0]
		work = work[1:]
		for _, ref := range *d.Referrers() {
			switch ref := ref.(type) {
			case *ssa.FieldAddr, *ssa.IndexAddr, *ssa.Slice, *ssa.Phi, *ssa.MakeInterface, *ssa.ChangeType:
				add(ref.(ssa.Value)) // another view of (part of) the same container
			case *ssa.Store:
				if ref.Addr == d {
					res = join(res, a.origin(ref.Val, seen))
				} else {
					escapes = "its address is stored elsewhere"
				}
			case *ssa.MapUpdate:
				if ref.Map == d {
					res = join(res, a.origin(ref.Value, seen))
				} else {
					escapes = "it is stored in a map"
				}
			case ssa.CallInstruction:
				c := ref.Common()
				if b, ok := c.Value.(*ssa.Builtin); ok {
					switch b.Name() {
					case "append":
						if c.Args[0] == d {
							add(ref.Value())
							res = join(res, a.origin(c.Args[1], seen))
						}
					case "copy":
						if c.Args[0] == d {
							res = join(res, a.origin(c.Args[1], seen))
						}
					}
					continue
				}
				name, ops := a.callOperands(ref)
				for i, op := range ops {
					if op == d && (len(a.callees[ref]) > 0 || !allowed(name, i-a.recvShift(ref))) {
						escapes = "it is passed to " + name
					}
				}
			}
		}
	}
	if escapes != "" {
		res = join(res, org{Param, name, "local container whose contents are not all visible: " + escapes})
	}
	return res
}

// callResult is the origin of result idx of a call.
func (a *analyzer) callResult(call *ssa.Call, idx int, seen seenSet) org {
	c := call.Common()
	if b, ok := c.Value.(*ssa.Builtin); ok {
		if b.Name() == "append" {
			if isNilConst(c.Args[0]) {
				return org{Fresh, "append(nil, ...)", "append to a nil slice allocates"}
			}
			return a.origin(c.Args[0], seen).wrap("+append")
		}
		return org{Fresh, b.Name() + "()", "builtin result"}
	}
	if cs := a.callees[call]; len(cs) > 0 {
		var res org
		for i, f := range cs {
			o := org{Fresh, fnName(f) + "()", "every return path of " + fnName(f) + " returns fresh"}
			if rs := a.retOrg[f]; idx < len(rs) && rs[idx].o > Fresh {
				o = org{rs[idx].o, fnName(f) + "()", "returned by " + fnName(f) + ": " + clip(rs[idx].path, 30) + ": " + firstClause(rs[idx].why)}
			}
			if i == 0 || o.o > res.o {
				res = o
			}
		}
		return res
	}
	// A function outside the package: its result may alias any reference it got.
	name, ops := a.callOperands(call)
	res := org{Fresh, name + "()", "result of external call with no reference arguments"}
	first := true
	for _, op := range ops {
		if !pointerLike(op.Type()) {
			continue
		}
		if o := a.origin(op, seen); first || o.o > res.o {
			res = org{o.o, name + "(" + o.path + ")", "result of external call, may alias its argument: " + firstClause(o.why)}
			first = false
		}
	}
	return res
}
