#!/bin/sh
# usage: labsweep.sh <lab-name> <seeded-id>...   -- in lab <name> (tools/lab.sh), apply each seeded change to the lab's repo,
# run the quick check of its own property there, undo; one line each (CAUGHT / MISSED).
L=/tmp/lab/$1; shift
for id in "$@"; do
  prop=${id%%-*}
  cd $L/repo && git checkout -q -- . && git clean -fdq -e verif_hooks.go
  if ! git apply /verif/seeded/$id/patch.diff 2>/dev/null; then echo "NOAPPLY $id"; continue; fi
  out=$(cd $L/verif && VERIF_REPO=$L/repo ./check $prop quick 2>&1 | tail -6)
  if echo "$out" | grep -q "^VIOLATION"; then
    echo "CAUGHT $id: $(echo "$out" | grep '^VIOLATION' | head -1 | cut -c1-150)"
  else
    echo "MISSED $id: $(echo "$out" | tail -1 | cut -c1-200)"
  fi
  cd $L/repo && git checkout -q -- . && git clean -fdq -e verif_hooks.go
done
