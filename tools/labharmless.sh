#!/bin/sh
# usage: labharmless.sh <lab-name> <diff>...  -- in lab <name> apply each behaviour-preserving rewrite to the lab's repo and run
# every quick check there; prints one line per (rewrite, property) that is not a clean pass, and "done <rewrite>".
L=/tmp/lab/$1; shift
props="${VERIF_PROPS:-C01 C02 C03 C04 C05 C06 C07 C08 C09 C10 C11 C12 C13 C14 C15 C16 C17 C18 C19}"
for d in "$@"; do
  cd $L/repo && git checkout -q -- . && git clean -fdq -e verif_hooks.go
  if ! git apply "$d" 2>/dev/null; then echo "NOAPPLY $d"; continue; fi
  for p in $props; do
    out=$(cd $L/verif && VERIF_REPO=$L/repo ./check $p quick 2>&1); rc=$?
    if [ $rc -ne 0 ] || echo "$out" | grep -q VIOLATION; then
      echo "ALARM $(basename $d) $p rc=$rc: $(echo "$out" | grep -E 'VIOLATION|check error' | head -2 | tr '\n' ' ')"
      mkdir -p /tmp/lab/alarms; cp $L/verif/evidence/$p.json /tmp/lab/alarms/$(basename $d)-$p.json 2>/dev/null
    fi
  done
  echo "done $(basename $d) $(cd $L/verif && jq -r '.coverage.translated_slice_arithmetic' evidence/C08.json | cut -c1-120)"
  cd $L/repo && git checkout -q -- . && git clean -fdq -e verif_hooks.go
done
