module verifextract

go 1.14
