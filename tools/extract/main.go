// Command extract reads lexer.go, parser.go and functions.go of go-jmespath
// (directory = first argument, default /repo) and writes the data tables the
// Lean model depends on as a Lean 4 file (second argument, default
// /verif/lean/Jmes/Generated.lean).  Standard library only; pure syntax (go/ast).
//
// Contract: every item is located by a structural rule, never by line number.
// If a rule does not match exactly once, or a shape is not one listed here,
// the program prints `extract: cannot understand <what>: <why>` to stderr and
// exits with status 3 WITHOUT writing the output file.  It never guesses.
//
// lexer.go (package-level declarations, each declared exactly once):
//
//	identifierStartBits     const, integer literal
//	identifierTrailingBits  var, array/slice composite literal of integer literals
//	basicTokens             var, map[rune]tokType literal: (code point, token), source order
//	whiteSpace              var, map[rune]bool literal: its keys, source order; a `false`
//	                        value is refused (the lexer tests key presence, not the value)
//
// parser.go: bp = var bindingPowers, a map[tokType]int literal, in source order.
// An "rbp argument" is the sole argument X of a call p.parseExpression(X),
// p.parseProjectionRHS(X) or p.parseDotRHS(X); X is an integer literal or
// bindingPowers[tTok] (looked up in bp; a token absent from bp is 0).  Each
// field below is the rbp argument of the ONLY such call in its scope (the whole
// function body / case clause, nested blocks included):
//
//	projStop  parseProjectionRHS: first top-level `if`, cond `bindingPowers[id] < INT`
//	led (the one `switch tokenType`), by case clause:
//	  tDot: parseDotRHS -> ledDotSub, parseProjectionRHS -> ledDotStar
//	  tPipe / tOr / tAnd: parseExpression -> ledPipe / ledOr / ledAnd
//	  tFlatten: parseProjectionRHS -> ledFlatten; tLbracket: same -> ledBracketStar
//	  the clause listing exactly {tEQ,tNE,tGT,tGTE,tLT,tLTE}: parseExpression -> ledCmp,
//	  one pair per listed token in listed order; X = bindingPowers[tokenType]
//	  means "bp of that token", anything else the same value for all
//	parseFunctionArg: exactly two parseExpression calls -> ledArg, ledArgExpref
//	nud (the one `switch token.tokenType`), by case clause:
//	  tStar / tFlatten / tLbracket: parseProjectionRHS -> nudStar / nudFlatten / nudBracketStar
//	  tNot / tLparen: parseExpression -> nudNot / nudParen
//	parseMultiSelectList, parseMultiSelectHash: parseExpression -> msList, msHash
//	projectIfSlice: parseProjectionRHS -> sliceProj
//	parseFilter: parseExpression -> filterCond, parseProjectionRHS -> filterRhs
//	Parse: parseExpression -> top
//
// functions.go: in newFunctionCaller, the map[string]functionEntry literal of the
// only assignment to caller.functionTable; per element, in source order: the key
// string; `arguments` ([]argSpec of {types: []jpType{...}, variadic: true|false},
// absent = []); `handler` (a known jpf* identifier, required); `hasExpRef`
// (true|false, absent = false); `name` is ignored; any other field is refused.
//
// Also refused: any assignment to, ++/-- of, or delete() from an extracted table
// elsewhere in these three files (the literal would then not be the whole truth).
package main

import (
	"fmt"
	"go/ast"
	"go/parser"
	"go/token"
	"go/types"
	"io/ioutil"
	"os"
	"path/filepath"
	"strconv"
	"strings"
)

var tokNames = map[string]string{"tUnknown": "unknown", "tStar": "star", "tDot": "dot", "tFilter": "filter",
	"tFlatten": "flatten", "tLparen": "lparen", "tRparen": "rparen", "tLbracket": "lbracket", "tRbracket": "rbracket",
	"tLbrace": "lbrace", "tRbrace": "rbrace", "tOr": "or", "tPipe": "pipe", "tNumber": "number",
	"tUnquotedIdentifier": "uident", "tQuotedIdentifier": "qident", "tComma": "comma", "tColon": "colon", "tLT": "lt",
	"tLTE": "lte", "tGT": "gt", "tGTE": "gte", "tEQ": "eq", "tNE": "ne", "tJSONLiteral": "jsonLiteral",
	"tStringLiteral": "stringLiteral", "tCurrent": "current", "tExpref": "expref", "tAnd": "and", "tNot": "not", "tEOF": "eof"}

var typeNames = map[string]string{"jpNumber": "number", "jpString": "string", "jpArray": "array", "jpObject": "object",
	"jpArrayNumber": "arrayNumber", "jpArrayString": "arrayString", "jpExpref": "expref", "jpAny": "any"}

var handlerNames = map[string]string{"jpfLength": "length", "jpfStartsWith": "startsWith", "jpfAbs": "abs", "jpfAvg": "avg",
	"jpfCeil": "ceil", "jpfContains": "contains", "jpfEndsWith": "endsWith", "jpfFloor": "floor", "jpfMap": "map",
	"jpfMax": "max", "jpfMerge": "merge", "jpfMaxBy": "maxBy", "jpfSum": "sum", "jpfMin": "min", "jpfMinBy": "minBy",
	"jpfType": "type", "jpfKeys": "keys", "jpfValues": "values", "jpfSort": "sort", "jpfSortBy": "sortBy", "jpfJoin": "join",
	"jpfReverse": "reverse", "jpfToArray": "toArray", "jpfToString": "toString", "jpfToNumber": "toNumber", "jpfNotNull": "notNull"}

var cmpToks = []string{"tEQ", "tNE", "tGT", "tGTE", "tLT", "tLTE"}

var fset = token.NewFileSet()

func die(what, why string, a ...interface{}) {
	fmt.Fprintf(os.Stderr, "extract: cannot understand %s: %s\n", what, fmt.Sprintf(why, a...))
	os.Exit(3)
}

func at(n ast.Node) string {
	p := fset.Position(n.Pos())
	return fmt.Sprintf("%s:%d", filepath.Base(p.Filename), p.Line)
}

func src(e ast.Expr) string { return types.ExprString(e) }

// ---- generic syntax helpers -------------------------------------------------

// root strips index expressions: x, x[i], x[i][j] -> "x".
func root(e ast.Expr) string {
	for {
		ix, ok := e.(*ast.IndexExpr)
		if !ok {
			return src(e)
		}
		e = ix.X
	}
}

func parseFile(dir, name string, tables ...string) *ast.File {
	f, err := parser.ParseFile(fset, filepath.Join(dir, name), nil, 0)
	if err != nil {
		die(name, "%v", err)
	}
	check := func(e ast.Expr, n ast.Node) {
		for _, t := range tables {
			if root(e) == t {
				die(t, "it is modified at %s, so its literal is not the whole truth", at(n))
			}
		}
	}
	ast.Inspect(f, func(n ast.Node) bool {
		switch s := n.(type) {
		case *ast.AssignStmt:
			for _, l := range s.Lhs {
				check(l, s)
			}
		case *ast.IncDecStmt:
			check(s.X, s)
		case *ast.CallExpr:
			if src(s.Fun) == "delete" && len(s.Args) > 0 {
				check(s.Args[0], s)
			}
		}
		return true
	})
	return f
}

// topValue returns the initialiser of the package-level const/var `name`.
func topValue(f *ast.File, kind token.Token, name string) ast.Expr {
	var found []ast.Expr
	for _, d := range f.Decls {
		g, ok := d.(*ast.GenDecl)
		if !ok || (g.Tok != token.CONST && g.Tok != token.VAR) {
			continue
		}
		for _, s := range g.Specs {
			vs := s.(*ast.ValueSpec)
			for _, n := range vs.Names {
				if n.Name != name {
					continue
				}
				if g.Tok != kind || len(vs.Names) != 1 || len(vs.Values) != 1 {
					die(name, "declaration at %s is not a single `%s %s = <value>`", at(vs), kind, name)
				}
				found = append(found, vs.Values[0])
			}
		}
	}
	if len(found) != 1 {
		die(name, "expected exactly one package-level declaration, found %d", len(found))
	}
	return found[0]
}

func intLit(e ast.Expr, what string) uint64 {
	if b, ok := e.(*ast.BasicLit); ok && b.Kind == token.INT {
		if v, err := strconv.ParseUint(b.Value, 0, 64); err == nil {
			return v
		}
	}
	die(what, "`%s` at %s is not an unsigned integer literal", src(e), at(e))
	return 0
}

func runeLit(e ast.Expr, what string) uint64 {
	if b, ok := e.(*ast.BasicLit); ok && b.Kind == token.CHAR {
		if s, err := strconv.Unquote(b.Value); err == nil && len([]rune(s)) == 1 {
			return uint64([]rune(s)[0])
		}
	}
	die(what, "`%s` at %s is not a rune literal", src(e), at(e))
	return 0
}

func boolLit(e ast.Expr, what string) bool {
	if s := src(e); s == "true" || s == "false" {
		return s == "true"
	}
	die(what, "`%s` at %s is not literally true or false", src(e), at(e))
	return false
}

// named maps a Go identifier through one of the name tables above.
func named(e ast.Expr, table map[string]string, what string) string {
	if id, ok := e.(*ast.Ident); ok {
		if l, ok := table[id.Name]; ok {
			return l
		}
	}
	die(what, "`%s` at %s is not a known identifier of this kind", src(e), at(e))
	return ""
}

// lit checks that e is a composite literal of type typ ("" = any array/slice;
// an elided type is accepted when elidedOK) and returns its elements.
func lit(e ast.Expr, typ string, elidedOK bool, what string) []ast.Expr {
	c, ok := e.(*ast.CompositeLit)
	if !ok {
		die(what, "`%s` at %s is not a composite literal", src(e), at(e))
	}
	_, isArr := c.Type.(*ast.ArrayType)
	if !(c.Type == nil && elidedOK) && !(typ == "" && isArr) && !(c.Type != nil && src(c.Type) == typ) {
		die(what, "composite literal at %s does not have type %s", at(e), typ)
	}
	return c.Elts
}

// kv splits a keyed element.
func kv(e ast.Expr, what string) (ast.Expr, ast.Expr) {
	p, ok := e.(*ast.KeyValueExpr)
	if !ok {
		die(what, "element `%s` at %s is not key: value", src(e), at(e))
	}
	return p.Key, p.Value
}

// fields reads a struct literal's elements as field -> value, refusing
// unkeyed, repeated or unlisted fields.
func fields(elts []ast.Expr, what string, allowed ...string) map[string]ast.Expr {
	m := map[string]ast.Expr{}
	for _, e := range elts {
		k, v := kv(e, what)
		name, ok := src(k), false
		for _, a := range allowed {
			ok = ok || a == name
		}
		if _, dup := m[name]; !ok || dup {
			die(what, "unexpected or repeated field `%s` at %s", name, at(e))
		}
		m[name] = v
	}
	return m
}

func funcBody(f *ast.File, name string) *ast.BlockStmt {
	var found []*ast.BlockStmt
	for _, d := range f.Decls {
		if fd, ok := d.(*ast.FuncDecl); ok && fd.Name.Name == name && fd.Body != nil {
			found = append(found, fd.Body)
		}
	}
	if len(found) != 1 {
		die("func "+name, "expected exactly one declaration, found %d", len(found))
	}
	return found[0]
}

// ---- parser table -------------------------------------------------------------

type parserTable struct {
	bp     []string          // rendered `(token, power)`, source order
	bpOf   map[string]uint64 // Go token name -> binding power
	fields []string          // rendered `name := value`, in output order
}

// rbpArgs returns the argument of every call <ident>.<callee>(X) inside scope.
func rbpArgs(scope ast.Node, callee, what string) []ast.Expr {
	var args []ast.Expr
	ast.Inspect(scope, func(n ast.Node) bool {
		c, ok := n.(*ast.CallExpr)
		if !ok {
			return true
		}
		sel, ok := c.Fun.(*ast.SelectorExpr)
		if !ok || sel.Sel.Name != callee {
			return true
		}
		if _, recv := sel.X.(*ast.Ident); !recv || len(c.Args) != 1 || c.Ellipsis.IsValid() {
			die(what, "call `%s` at %s is not <receiver>.%s(<one argument>)", src(c), at(c), callee)
		}
		args = append(args, c.Args[0])
		return true
	})
	return args
}

func (t *parserTable) resolve(x ast.Expr, what string) uint64 {
	if ix, ok := x.(*ast.IndexExpr); ok && src(ix.X) == "bindingPowers" {
		named(ix.Index, tokNames, what)
		return t.bpOf[src(ix.Index)] // absent -> 0, as Go's map lookup
	}
	return intLit(x, what+" (rbp argument must be an integer literal or bindingPowers[tTok])")
}

// one resolves the rbp argument of the only `callee` call inside scope.
func (t *parserTable) one(scope ast.Node, callee, what string) uint64 {
	what = what + ": " + callee + " call"
	args := rbpArgs(scope, callee, what)
	if len(args) != 1 {
		die(what, "expected exactly one in this scope (starting %s), found %d", at(scope), len(args))
	}
	return t.resolve(args[0], what)
}

func (t *parserTable) set(field string, v uint64) {
	t.fields = append(t.fields, fmt.Sprintf("%s := %d", field, v))
}

// switchOn finds the only switch statement in body whose tag prints as tag.
func switchOn(body *ast.BlockStmt, tag, what string) *ast.SwitchStmt {
	var found []*ast.SwitchStmt
	ast.Inspect(body, func(n ast.Node) bool {
		if s, ok := n.(*ast.SwitchStmt); ok && s.Tag != nil && s.Init == nil && src(s.Tag) == tag {
			found = append(found, s)
		}
		return true
	})
	if len(found) != 1 {
		die(what, "expected exactly one `switch %s`, found %d", tag, len(found))
	}
	return found[0]
}

// clause finds the only case clause whose token list is, as a set, exactly toks.
func clause(sw *ast.SwitchStmt, what string, toks ...string) *ast.CaseClause {
	var found []*ast.CaseClause
	for _, s := range sw.Body.List {
		c := s.(*ast.CaseClause)
		hits := 0
		for _, e := range c.List {
			for _, tk := range toks {
				if src(e) == tk {
					hits++
				}
			}
		}
		if hits > 0 && (hits != len(toks) || len(c.List) != len(toks)) {
			die(what, "case clause at %s lists %s together with, or without, other tokens", at(c), strings.Join(toks, ","))
		}
		if hits > 0 {
			found = append(found, c)
		}
	}
	if len(found) != 1 {
		die(what, "expected exactly one `case %s:` clause, found %d", strings.Join(toks, ", "), len(found))
	}
	return found[0]
}

func extractParser(f *ast.File) *parserTable {
	t := &parserTable{bpOf: map[string]uint64{}}
	for _, e := range lit(topValue(f, token.VAR, "bindingPowers"), "map[tokType]int", false, "bindingPowers") {
		k, v := kv(e, "bindingPowers")
		tok := named(k, tokNames, "bindingPowers key")
		if _, dup := t.bpOf[src(k)]; dup {
			die("bindingPowers", "duplicate key %s at %s", src(k), at(k))
		}
		t.bpOf[src(k)] = intLit(v, "bindingPowers["+src(k)+"]")
		t.bp = append(t.bp, fmt.Sprintf("(%s, %d)", tok, t.bpOf[src(k)]))
	}

	var firstIf *ast.IfStmt
	for _, s := range funcBody(f, "parseProjectionRHS").List {
		if is, ok := s.(*ast.IfStmt); ok && firstIf == nil {
			firstIf = is
		}
	}
	if firstIf == nil {
		die("projStop", "parseProjectionRHS has no top-level if statement")
	}
	cond, _ := firstIf.Cond.(*ast.BinaryExpr)
	understood := false
	if cond != nil && cond.Op == token.LSS && firstIf.Init == nil {
		if ix, ok := cond.X.(*ast.IndexExpr); ok && src(ix.X) == "bindingPowers" {
			_, understood = ix.Index.(*ast.Ident)
		}
	}
	if !understood {
		die("projStop", "condition `%s` at %s is not `bindingPowers[<ident>] < <int>`", src(firstIf.Cond), at(firstIf))
	}
	t.set("projStop", intLit(cond.Y, "projStop"))

	led := switchOn(funcBody(f, "led"), "tokenType", "led")
	dot := clause(led, "led", "tDot")
	t.set("ledDotSub", t.one(dot, "parseDotRHS", "led case tDot"))
	t.set("ledDotStar", t.one(dot, "parseProjectionRHS", "led case tDot"))
	t.set("ledPipe", t.one(clause(led, "led", "tPipe"), "parseExpression", "led case tPipe"))
	t.set("ledOr", t.one(clause(led, "led", "tOr"), "parseExpression", "led case tOr"))
	t.set("ledAnd", t.one(clause(led, "led", "tAnd"), "parseExpression", "led case tAnd"))
	arg := rbpArgs(funcBody(f, "parseFunctionArg"), "parseExpression", "parseFunctionArg")
	if len(arg) != 2 {
		die("parseFunctionArg", "expected exactly two parseExpression calls, found %d", len(arg))
	}
	t.set("ledArg", t.resolve(arg[0], "parseFunctionArg: first parseExpression call"))
	t.set("ledArgExpref", t.resolve(arg[1], "parseFunctionArg: second parseExpression call"))
	t.set("ledFlatten", t.one(clause(led, "led", "tFlatten"), "parseProjectionRHS", "led case tFlatten"))

	cmp := clause(led, "led comparators", cmpToks...)
	args := rbpArgs(cmp, "parseExpression", "led comparator case")
	if len(args) != 1 {
		die("led comparator case: parseExpression call", "expected exactly one, found %d", len(args))
	}
	ast.Inspect(cmp, func(n ast.Node) bool {
		if a, ok := n.(*ast.AssignStmt); ok {
			for _, l := range a.Lhs {
				if src(l) == "tokenType" {
					die("led comparator case", "tokenType is reassigned at %s", at(a))
				}
			}
		}
		return true
	})
	var cmps []string
	for _, e := range cmp.List {
		v := t.bpOf[src(e)]
		if src(args[0]) != "bindingPowers[tokenType]" {
			v = t.resolve(args[0], "led comparator case: parseExpression call")
		}
		cmps = append(cmps, fmt.Sprintf("(%s, %d)", named(e, tokNames, "led comparator case"), v))
	}
	t.fields = append(t.fields, "ledCmp := ["+strings.Join(cmps, ", ")+"]")
	t.set("ledBracketStar", t.one(clause(led, "led", "tLbracket"), "parseProjectionRHS", "led case tLbracket"))

	nud := switchOn(funcBody(f, "nud"), "token.tokenType", "nud")
	t.set("nudStar", t.one(clause(nud, "nud", "tStar"), "parseProjectionRHS", "nud case tStar"))
	t.set("nudFlatten", t.one(clause(nud, "nud", "tFlatten"), "parseProjectionRHS", "nud case tFlatten"))
	t.set("nudBracketStar", t.one(clause(nud, "nud", "tLbracket"), "parseProjectionRHS", "nud case tLbracket"))
	t.set("nudNot", t.one(clause(nud, "nud", "tNot"), "parseExpression", "nud case tNot"))
	t.set("nudParen", t.one(clause(nud, "nud", "tLparen"), "parseExpression", "nud case tLparen"))

	t.set("msList", t.one(funcBody(f, "parseMultiSelectList"), "parseExpression", "parseMultiSelectList"))
	t.set("msHash", t.one(funcBody(f, "parseMultiSelectHash"), "parseExpression", "parseMultiSelectHash"))
	t.set("sliceProj", t.one(funcBody(f, "projectIfSlice"), "parseProjectionRHS", "projectIfSlice"))
	t.set("filterCond", t.one(funcBody(f, "parseFilter"), "parseExpression", "parseFilter"))
	t.set("filterRhs", t.one(funcBody(f, "parseFilter"), "parseProjectionRHS", "parseFilter"))
	t.set("top", t.one(funcBody(f, "Parse"), "parseExpression", "Parse"))
	return t
}

// ---- function table -----------------------------------------------------------

func extractFunctions(f *ast.File) []string {
	var rhs []ast.Expr
	ast.Inspect(funcBody(f, "newFunctionCaller"), func(n ast.Node) bool {
		a, ok := n.(*ast.AssignStmt)
		for i := 0; ok && i < len(a.Lhs); i++ {
			if root(a.Lhs[i]) != "caller.functionTable" {
				continue
			}
			if a.Tok != token.ASSIGN || len(a.Lhs) != 1 || len(a.Rhs) != 1 || src(a.Lhs[0]) != "caller.functionTable" {
				die("caller.functionTable", "statement at %s is not a plain `caller.functionTable = <literal>`", at(a))
			}
			rhs = append(rhs, a.Rhs[0])
		}
		return true
	})
	if len(rhs) != 1 {
		die("caller.functionTable", "expected exactly one assignment in newFunctionCaller, found %d", len(rhs))
	}
	var out []string
	seen := map[string]bool{}
	for _, e := range lit(rhs[0], "map[string]functionEntry", false, "caller.functionTable") {
		k, v := kv(e, "functionTable")
		kb, ok := k.(*ast.BasicLit)
		key, err := strconv.Unquote(src(k))
		if !ok || kb.Kind != token.STRING || err != nil || seen[key] || strings.IndexFunc(key, func(r rune) bool {
			return r < ' ' || r > '~' || r == '"' || r == '\\'
		}) >= 0 {
			die("functionTable key", "`%s` at %s is not a unique, plain printable-ASCII string literal", src(k), at(k))
		}
		seen[key] = true
		what := fmt.Sprintf("functionTable[%q]", key)
		fl := fields(lit(v, "functionEntry", true, what), what, "name", "arguments", "handler", "hasExpRef")
		var args []string
		if a, ok := fl["arguments"]; ok {
			for _, spec := range lit(a, "[]argSpec", false, what+".arguments") {
				sf := fields(lit(spec, "argSpec", true, what+" argSpec"), what+" argSpec", "types", "variadic")
				if sf["types"] == nil {
					die(what, "argSpec at %s has no types field", at(spec))
				}
				var tys []string
				for _, ty := range lit(sf["types"], "[]jpType", false, what+" types") {
					tys = append(tys, named(ty, typeNames, what+" types"))
				}
				variadic := false
				if sf["variadic"] != nil {
					variadic = boolLit(sf["variadic"], what+" variadic")
				}
				args = append(args, fmt.Sprintf("{ types := [%s], variadic := %t }", strings.Join(tys, ", "), variadic))
			}
		}
		if fl["handler"] == nil {
			die(what, "entry at %s has no handler field", at(e))
		}
		hasExpRef := false
		if fl["hasExpRef"] != nil {
			hasExpRef = boolLit(fl["hasExpRef"], what+" hasExpRef")
		}
		out = append(out, fmt.Sprintf("  { key := \"%s\", args := [%s], handler := Handler.%s, hasExpRef := %t }",
			key, strings.Join(args, ", "), named(fl["handler"], handlerNames, what+" handler"), hasExpRef))
	}
	return out
}

// ---- main -----------------------------------------------------------------------

func main() {
	dir, outPath := "/repo", "/verif/lean/Jmes/Generated.lean"
	if len(os.Args) > 3 {
		die("command line", "usage: extract [repo-dir [output.lean]]")
	}
	if len(os.Args) > 1 {
		dir = os.Args[1]
	}
	if len(os.Args) > 2 {
		outPath = os.Args[2]
	}
	lexer := parseFile(dir, "lexer.go", "identifierTrailingBits", "basicTokens", "whiteSpace")
	parserF := parseFile(dir, "parser.go", "bindingPowers")
	funcs := parseFile(dir, "functions.go")

	var trailing, basic, white []string
	for _, e := range lit(topValue(lexer, token.VAR, "identifierTrailingBits"), "", false, "identifierTrailingBits") {
		trailing = append(trailing, fmt.Sprint(intLit(e, "identifierTrailingBits")))
	}
	seen := map[uint64]bool{}
	for _, e := range lit(topValue(lexer, token.VAR, "basicTokens"), "map[rune]tokType", false, "basicTokens") {
		k, v := kv(e, "basicTokens")
		basic = append(basic, fmt.Sprintf("(%d, %s)", runeLit(k, "basicTokens key"), named(v, tokNames, "basicTokens value")))
		seen[runeLit(k, "basicTokens key")] = true
	}
	if len(seen) != len(basic) {
		die("basicTokens", "duplicate keys")
	}
	for _, e := range lit(topValue(lexer, token.VAR, "whiteSpace"), "map[rune]bool", false, "whiteSpace") {
		k, v := kv(e, "whiteSpace")
		// The lexer tests key presence (`_, ok := whiteSpace[r]`), so a key mapped
		// to false would be ambiguous between rule and behaviour: refuse it.
		if !boolLit(v, "whiteSpace value") {
			die("whiteSpace", "key %s at %s has value false; only `true` values are understood", src(k), at(k))
		}
		white = append(white, fmt.Sprint(runeLit(k, "whiteSpace key")))
	}
	pt := extractParser(parserF)

	var b strings.Builder
	// The header is a fixed string so that outputs from different source directories are comparable.
	b.WriteString("-- GENERATED by /verif/tools/extract from /repo (working tree). Do not edit.\n")
	b.WriteString("import Jmes.Token\nnamespace Jmes.Generated\nopen Jmes TokType JpType Handler\n\n")
	fmt.Fprintf(&b, "def identifierStartBits : Nat := %d\n", intLit(topValue(lexer, token.CONST, "identifierStartBits"), "identifierStartBits"))
	fmt.Fprintf(&b, "def identifierTrailingBits : List Nat := [%s]\n", strings.Join(trailing, ", "))
	fmt.Fprintf(&b, "def basicTokens : List (Nat × TokType) := [%s]\n", strings.Join(basic, ", "))
	fmt.Fprintf(&b, "def whiteSpace : List Nat := [%s]\n\n", strings.Join(white, ", "))
	fmt.Fprintf(&b, "def table : ParserTable := {\n  bp := [%s],\n  %s }\n\n", strings.Join(pt.bp, ", "), strings.Join(pt.fields, ",\n  "))
	fmt.Fprintf(&b, "def functionTable : List FnEntry := [\n%s\n]\n\nend Jmes.Generated\n", strings.Join(extractFunctions(funcs), ",\n"))

	if err := ioutil.WriteFile(outPath, []byte(b.String()), 0o644); err != nil {
		fmt.Fprintf(os.Stderr, "extract: cannot write %s: %v\n", outPath, err)
		os.Exit(1)
	}
}
