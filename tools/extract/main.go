// Command extract reads lexer.go, parser.go and functions.go of go-jmespath
// (directory = first argument, default /repo) and writes the data tables the
// Lean model depends on as a Lean 4 file (second argument, default
// /verif/lean/Jmes/Generated.lean).  Standard library only; pure syntax (go/ast).
//
// Contract: every item is located by a structural rule, never by line number.
// If a rule does not match exactly once, or a shape is not one listed here,
// the program prints `extract: cannot understand <what>: <why>` to stderr and
// exits with status 3 WITHOUT writing the output file.  It never guesses.
//
// lexer.go (package-level declarations, each declared exactly once):
//
//	identifierStartBits     const, integer literal
//	identifierTrailingBits  var, array/slice composite literal of integer literals
//	basicTokens             var, map[rune]tokType literal: (code point, token), source order
//	whiteSpace              var, map[rune]bool literal: its keys, source order; a `false`
//	                        value is refused (the lexer tests key presence, not the value)
//
// With `-lexer-from FILE` lexer.go is not read: the four definitions are taken from FILE,
// the output of `harness lexprobe`, which derives them by executing the library on every
// code point (used by /verif/check when the literals above are gone).
//
// parser.go: bp = var bindingPowers, a map[tokType]int literal or an array literal keyed by
// token constants, in source order (a token absent from it is 0).
// An "rbp argument" is the sole argument X of a call p.parseExpression(X),
// p.parseProjectionRHS(X) or p.parseDotRHS(X); X is an integer literal, bindingPowers[tTok],
// or bindingPowers[TAG] where TAG is the expression the enclosing token switch dispatches on
// (then it means the binding power of the clause's own token).  The "token switch" of nud /
// led is the only switch in that function with a tag and at least four clauses all of whose
// entries are token constants; its tag must not be reassigned.  A "scope" is a function body
// or the case clause listing the token, TOGETHER WITH the bodies of the parser's helper
// methods it calls (every method that is not one of the core functions named below), as if
// inlined.  Each field is the rbp argument of the ONLY such call in its scope:
//
//	projStop  the only comparison `bindingPowers[<identifier that is not a token>] < INT`
//	          in parseProjectionRHS
//	led, by the clause listing the token:
//	  tDot: parseDotRHS -> ledDotSub, parseProjectionRHS -> ledDotStar
//	  tPipe / tOr / tAnd: parseExpression -> ledPipe / ledOr / ledAnd
//	  tFlatten: parseProjectionRHS -> ledFlatten; tLbracket: same -> ledBracketStar
//	  tEQ,tNE,tGT,tGTE,tLT,tLTE: parseExpression -> ledCmp, one pair per token (in the
//	  clause's order when one clause lists exactly these six)
//	parseFunctionArg: exactly two parseExpression calls -> ledArg, ledArgExpref
//	nud, by the clause listing the token:
//	  tStar / tFlatten / tLbracket: parseProjectionRHS -> nudStar / nudFlatten / nudBracketStar
//	  tNot / tLparen: parseExpression -> nudNot / nudParen
//	parseMultiSelectList, parseMultiSelectHash: parseExpression -> msList, msHash
//	projectIfSlice: parseProjectionRHS -> sliceProj
//	parseFilter: parseExpression -> filterCond, parseProjectionRHS -> filterRhs
//	Parse: parseExpression -> top
//
// functions.go: in newFunctionCaller, the value the `functionTable` field receives, given in
// exactly one place (`<x>.functionTable = E`, or `functionTable: E` in a composite literal).  E is
// a map[string]functionEntry literal, or a local variable initialised with such a literal or with
// make(map[string]functionEntry, ...) and filled by top-level statements `E["name"] = entry` (any
// other use of that variable is refused).  Per entry, in source order: the key string; `arguments`
// ([]argSpec of {types: []jpType{...}, variadic: true|false}, absent = []); `handler` (a known
// jpf* identifier, required); `hasExpRef` (true|false, absent = false); `name` is ignored; any
// other field is refused.  An identifier standing where an entry, an argSpec, a []argSpec or a
// []jpType literal is expected is replaced by its binding if it is bound exactly once in the
// function, never reassigned and never has its address taken.
//
// Also refused: any assignment to, ++/-- of, or delete() from an extracted table
// elsewhere in these three files (the literal would then not be the whole truth).
package main

import (
	"fmt"
	"go/ast"
	"go/parser"
	"go/token"
	"go/types"
	"io/ioutil"
	"os"
	"path/filepath"
	"strconv"
	"strings"
)

var tokNames = map[string]string{"tUnknown": "unknown", "tStar": "star", "tDot": "dot", "tFilter": "filter",
	"tFlatten": "flatten", "tLparen": "lparen", "tRparen": "rparen", "tLbracket": "lbracket", "tRbracket": "rbracket",
	"tLbrace": "lbrace", "tRbrace": "rbrace", "tOr": "or", "tPipe": "pipe", "tNumber": "number",
	"tUnquotedIdentifier": "uident", "tQuotedIdentifier": "qident", "tComma": "comma", "tColon": "colon", "tLT": "lt",
	"tLTE": "lte", "tGT": "gt", "tGTE": "gte", "tEQ": "eq", "tNE": "ne", "tJSONLiteral": "jsonLiteral",
	"tStringLiteral": "stringLiteral", "tCurrent": "current", "tExpref": "expref", "tAnd": "and", "tNot": "not", "tEOF": "eof"}

var typeNames = map[string]string{"jpNumber": "number", "jpString": "string", "jpArray": "array", "jpObject": "object",
	"jpArrayNumber": "arrayNumber", "jpArrayString": "arrayString", "jpExpref": "expref", "jpAny": "any"}

var handlerNames = map[string]string{"jpfLength": "length", "jpfStartsWith": "startsWith", "jpfAbs": "abs", "jpfAvg": "avg",
	"jpfCeil": "ceil", "jpfContains": "contains", "jpfEndsWith": "endsWith", "jpfFloor": "floor", "jpfMap": "map",
	"jpfMax": "max", "jpfMerge": "merge", "jpfMaxBy": "maxBy", "jpfSum": "sum", "jpfMin": "min", "jpfMinBy": "minBy",
	"jpfType": "type", "jpfKeys": "keys", "jpfValues": "values", "jpfSort": "sort", "jpfSortBy": "sortBy", "jpfJoin": "join",
	"jpfReverse": "reverse", "jpfToArray": "toArray", "jpfToString": "toString", "jpfToNumber": "toNumber", "jpfNotNull": "notNull"}

var cmpToks = []string{"tEQ", "tNE", "tGT", "tGTE", "tLT", "tLTE"}

var fset = token.NewFileSet()

func die(what, why string, a ...interface{}) {
	fmt.Fprintf(os.Stderr, "extract: cannot understand %s: %s\n", what, fmt.Sprintf(why, a...))
	os.Exit(3)
}

func at(n ast.Node) string {
	p := fset.Position(n.Pos())
	return fmt.Sprintf("%s:%d", filepath.Base(p.Filename), p.Line)
}

func src(e ast.Expr) string { return types.ExprString(e) }

// ---- generic syntax helpers -------------------------------------------------

// root strips index expressions: x, x[i], x[i][j] -> "x".
func root(e ast.Expr) string {
	for {
		ix, ok := e.(*ast.IndexExpr)
		if !ok {
			return src(e)
		}
		e = ix.X
	}
}

func parseFile(dir, name string, tables ...string) *ast.File {
	f, err := parser.ParseFile(fset, filepath.Join(dir, name), nil, 0)
	if err != nil {
		die(name, "%v", err)
	}
	check := func(e ast.Expr, n ast.Node) {
		for _, t := range tables {
			if root(e) == t {
				die(t, "it is modified at %s, so its literal is not the whole truth", at(n))
			}
		}
	}
	ast.Inspect(f, func(n ast.Node) bool {
		switch s := n.(type) {
		case *ast.AssignStmt:
			for _, l := range s.Lhs {
				check(l, s)
			}
		case *ast.IncDecStmt:
			check(s.X, s)
		case *ast.CallExpr:
			if src(s.Fun) == "delete" && len(s.Args) > 0 {
				check(s.Args[0], s)
			}
		}
		return true
	})
	return f
}

// topValue returns the initialiser of the package-level const/var `name`.
func topValue(f *ast.File, kind token.Token, name string) ast.Expr {
	var found []ast.Expr
	for _, d := range f.Decls {
		g, ok := d.(*ast.GenDecl)
		if !ok || (g.Tok != token.CONST && g.Tok != token.VAR) {
			continue
		}
		for _, s := range g.Specs {
			vs := s.(*ast.ValueSpec)
			for _, n := range vs.Names {
				if n.Name != name {
					continue
				}
				if g.Tok != kind || len(vs.Names) != 1 || len(vs.Values) != 1 {
					die(name, "declaration at %s is not a single `%s %s = <value>`", at(vs), kind, name)
				}
				found = append(found, vs.Values[0])
			}
		}
	}
	if len(found) != 1 {
		die(name, "expected exactly one package-level declaration, found %d", len(found))
	}
	return found[0]
}

// constValue: what the only `const name = <value>` of parser.go (package level or inside a function) binds.
func constValue(name string) (ast.Expr, bool) {
	if parserFile == nil {
		return nil, false
	}
	var found []ast.Expr
	ast.Inspect(parserFile, func(n ast.Node) bool { // package level and function-local constants alike
		gd, ok := n.(*ast.GenDecl)
		if !ok || gd.Tok != token.CONST {
			return true
		}
		for _, sp := range gd.Specs {
			vs := sp.(*ast.ValueSpec)
			for i, nm := range vs.Names {
				if nm.Name == name && i < len(vs.Values) {
					found = append(found, vs.Values[i])
				}
			}
		}
		return true
	})
	if len(found) != 1 {
		return nil, false
	}
	return found[0], true
}

func intLit(e ast.Expr, what string) uint64 {
	if p, ok := e.(*ast.ParenExpr); ok {
		return intLit(p.X, what)
	}
	if id, ok := e.(*ast.Ident); ok {
		if v, ok := constValue(id.Name); ok {
			if _, again := v.(*ast.Ident); !again {
				return intLit(v, what)
			}
		}
	}
	if b, ok := e.(*ast.BasicLit); ok && b.Kind == token.INT {
		if v, err := strconv.ParseUint(b.Value, 0, 64); err == nil {
			return v
		}
	}
	die(what, "`%s` at %s is not an unsigned integer literal", src(e), at(e))
	return 0
}

func runeLit(e ast.Expr, what string) uint64 {
	if b, ok := e.(*ast.BasicLit); ok && b.Kind == token.CHAR {
		if s, err := strconv.Unquote(b.Value); err == nil && len([]rune(s)) == 1 {
			return uint64([]rune(s)[0])
		}
	}
	die(what, "`%s` at %s is not a rune literal", src(e), at(e))
	return 0
}

func boolLit(e ast.Expr, what string) bool {
	if s := src(e); s == "true" || s == "false" {
		return s == "true"
	}
	die(what, "`%s` at %s is not literally true or false", src(e), at(e))
	return false
}

// named maps a Go identifier through one of the name tables above.
func named(e ast.Expr, table map[string]string, what string) string {
	if id, ok := e.(*ast.Ident); ok {
		if l, ok := table[id.Name]; ok {
			return l
		}
	}
	die(what, "`%s` at %s is not a known identifier of this kind", src(e), at(e))
	return ""
}

// lit checks that e is a composite literal of type typ ("" = any array/slice;
// an elided type is accepted when elidedOK) and returns its elements.
func lit(e ast.Expr, typ string, elidedOK bool, what string) []ast.Expr {
	c, ok := e.(*ast.CompositeLit)
	if !ok {
		die(what, "`%s` at %s is not a composite literal", src(e), at(e))
	}
	_, isArr := c.Type.(*ast.ArrayType)
	if !(c.Type == nil && elidedOK) && !(typ == "" && isArr) && !(c.Type != nil && src(c.Type) == typ) {
		die(what, "composite literal at %s does not have type %s", at(e), typ)
	}
	return c.Elts
}

// kv splits a keyed element.
func kv(e ast.Expr, what string) (ast.Expr, ast.Expr) {
	p, ok := e.(*ast.KeyValueExpr)
	if !ok {
		die(what, "element `%s` at %s is not key: value", src(e), at(e))
	}
	return p.Key, p.Value
}

// fields reads a struct literal's elements as field -> value, refusing
// unkeyed, repeated or unlisted fields.
func fields(elts []ast.Expr, what string, allowed ...string) map[string]ast.Expr {
	m := map[string]ast.Expr{}
	for _, e := range elts {
		k, v := kv(e, what)
		name, ok := src(k), false
		for _, a := range allowed {
			ok = ok || a == name
		}
		if _, dup := m[name]; !ok || dup {
			die(what, "unexpected or repeated field `%s` at %s", name, at(e))
		}
		m[name] = v
	}
	return m
}

func funcBody(f *ast.File, name string) *ast.BlockStmt {
	var found []*ast.BlockStmt
	for _, d := range f.Decls {
		if fd, ok := d.(*ast.FuncDecl); ok && fd.Name.Name == name && fd.Body != nil {
			found = append(found, fd.Body)
		}
	}
	if len(found) != 1 {
		die("func "+name, "expected exactly one declaration, found %d", len(found))
	}
	return found[0]
}

// ---- parser table -------------------------------------------------------------

type parserTable struct {
	bp     []string          // rendered `(token, power)`, source order
	bpOf   map[string]uint64 // Go token name -> binding power
	fields []string          // rendered `name := value`, in output order
}

// coreFuncs are the parser functions the model has one definition each for; every other method
// of the parser is a helper whose body is read as if written at its call sites.
var coreFuncs = map[string]bool{"parseExpression": true, "parseProjectionRHS": true, "parseDotRHS": true,
	"parseMultiSelectList": true, "parseMultiSelectHash": true, "parseFilter": true, "projectIfSlice": true,
	"parseIndexExpression": true, "parseSliceExpression": true, "parseFunctionArg": true, "nud": true, "led": true,
	"Parse": true, "parse": true, "current": true, "lookahead": true, "advance": true, "match": true,
	"syntaxError": true, "syntaxErrorToken": true, "lookaheadToken": true}

var parserFile *ast.File

func helperDecl(name string) *ast.FuncDecl {
	if coreFuncs[name] || parserFile == nil {
		return nil
	}
	var found *ast.FuncDecl
	for _, d := range parserFile.Decls {
		if fd, ok := d.(*ast.FuncDecl); ok && fd.Name.Name == name && fd.Body != nil && fd.Recv != nil {
			if found != nil {
				return nil
			}
			found = fd
		}
	}
	return found
}

func helperBody(name string) *ast.BlockStmt {
	if fd := helperDecl(name); fd != nil {
		return fd.Body
	}
	return nil
}

// substArg replaces a helper's parameter by the argument it was called with: `bindingPowers[param]` and a
// bare `param` become what the caller wrote (a helper such as parseBinary(nodeType, operator, left) that
// computes its power as bindingPowers[operator] is read as if inlined at each call).
func substArg(x ast.Expr, subst map[string]ast.Expr) ast.Expr {
	if len(subst) == 0 {
		return x
	}
	switch e := x.(type) {
	case *ast.Ident:
		if r, ok := subst[e.Name]; ok {
			return r
		}
	case *ast.IndexExpr:
		if id, ok := e.Index.(*ast.Ident); ok {
			if r, ok := subst[id.Name]; ok {
				return &ast.IndexExpr{X: e.X, Lbrack: e.Lbrack, Index: r, Rbrack: e.Rbrack}
			}
		}
	}
	return x
}

// rbpArgs returns the argument of every call <ident>.<callee>(X) inside scope, and inside the
// bodies of the helper methods scope calls (transitively).
func rbpArgs(scope ast.Node, callee, what string) []ast.Expr {
	var args []ast.Expr
	visited := map[string]bool{}
	var walk func(n ast.Node, subst map[string]ast.Expr)
	walk = func(scope ast.Node, subst map[string]ast.Expr) {
		ast.Inspect(scope, func(n ast.Node) bool {
			c, ok := n.(*ast.CallExpr)
			if !ok {
				return true
			}
			sel, ok := c.Fun.(*ast.SelectorExpr)
			if !ok {
				return true
			}
			if _, recv := sel.X.(*ast.Ident); recv && sel.Sel.Name != callee && !visited[sel.Sel.Name] {
				if hd := helperDecl(sel.Sel.Name); hd != nil {
					visited[sel.Sel.Name] = true
					inner := map[string]ast.Expr{}
					i := 0
					for _, f := range hd.Type.Params.List {
						for _, nm := range f.Names {
							if i < len(c.Args) {
								inner[nm.Name] = substArg(c.Args[i], subst)
							}
							i++
						}
					}
					walk(hd.Body, inner)
				}
			}
			if sel.Sel.Name != callee {
				return true
			}
			if _, recv := sel.X.(*ast.Ident); !recv || len(c.Args) != 1 || c.Ellipsis.IsValid() {
				die(what, "call `%s` at %s is not <receiver>.%s(<one argument>)", src(c), at(c), callee)
			}
			args = append(args, substArg(c.Args[0], subst))
			return true
		})
	}
	walk(scope, nil)
	return args
}

// resolve evaluates an rbp argument: an integer literal, bindingPowers[tTok], or bindingPowers[<tag>]
// where <tag> is the expression the enclosing token switch dispatches on and cur the clause's token.
func (t *parserTable) resolve(x ast.Expr, tag, cur, what string) uint64 {
	if ix, ok := x.(*ast.IndexExpr); ok && src(ix.X) == "bindingPowers" {
		if tag != "" && cur != "" && src(ix.Index) == tag {
			return t.bpOf[cur]
		}
		named(ix.Index, tokNames, what)
		return t.bpOf[src(ix.Index)] // absent -> 0, as Go's map lookup
	}
	return intLit(x, what+" (rbp argument must be an integer literal or bindingPowers[tTok])")
}

// one resolves the rbp argument of the only `callee` call inside scope.
func (t *parserTable) one(scope ast.Node, callee, tag, cur, what string) uint64 {
	what = what + ": " + callee + " call"
	args := rbpArgs(scope, callee, what)
	if len(args) != 1 {
		die(what, "expected exactly one in this scope (starting %s), found %d", at(scope), len(args))
	}
	return t.resolve(args[0], tag, cur, what)
}

func (t *parserTable) set(field string, v uint64) {
	t.fields = append(t.fields, fmt.Sprintf("%s := %d", field, v))
}

// tokenSwitch finds the only switch statement in body that dispatches on a token type: a tag
// expression, and at least four case clauses all of whose entries are token names.
func tokenSwitch(body *ast.BlockStmt, what string) *ast.SwitchStmt {
	var found []*ast.SwitchStmt
	ast.Inspect(body, func(n ast.Node) bool {
		s, ok := n.(*ast.SwitchStmt)
		if !ok || s.Tag == nil || s.Init != nil {
			return true
		}
		clauses := 0
		for _, st := range s.Body.List {
			c := st.(*ast.CaseClause)
			for _, e := range c.List {
				if _, isTok := tokNames[src(e)]; !isTok {
					return true
				}
			}
			if len(c.List) > 0 {
				clauses++
			}
		}
		if clauses >= 4 {
			found = append(found, s)
		}
		return true
	})
	if len(found) != 1 {
		die(what, "expected exactly one switch over token types, found %d", len(found))
	}
	tag := src(found[0].Tag)
	ast.Inspect(body, func(n ast.Node) bool {
		switch a := n.(type) {
		case *ast.AssignStmt:
			for _, l := range a.Lhs {
				if src(l) == tag && a.Tok != token.DEFINE {
					die(what, "`%s` is reassigned at %s", tag, at(a))
				}
			}
		case *ast.IncDecStmt:
			if src(a.X) == tag {
				die(what, "`%s` is modified at %s", tag, at(a))
			}
		}
		return true
	})
	return found[0]
}

// clause finds the only case clause that lists tok.
func clause(sw *ast.SwitchStmt, what string, tok string) *ast.CaseClause {
	var found []*ast.CaseClause
	for _, s := range sw.Body.List {
		c := s.(*ast.CaseClause)
		for _, e := range c.List {
			if src(e) == tok {
				found = append(found, c)
			}
		}
	}
	if len(found) != 1 {
		die(what, "expected exactly one case clause listing %s, found %d", tok, len(found))
	}
	return found[0]
}

func extractParser(f *ast.File) *parserTable {
	parserFile = f
	t := &parserTable{bpOf: map[string]uint64{}}
	bpLit, _ := topValue(f, token.VAR, "bindingPowers").(*ast.CompositeLit)
	if bpLit == nil {
		die("bindingPowers", "not a composite literal")
	}
	_, isArr := bpLit.Type.(*ast.ArrayType)
	if !(bpLit.Type != nil && (src(bpLit.Type) == "map[tokType]int" || isArr)) {
		die("bindingPowers", "composite literal at %s is neither map[tokType]int nor an array keyed by token", at(bpLit))
	}
	for _, e := range bpLit.Elts {
		k, v := kv(e, "bindingPowers")
		tok := named(k, tokNames, "bindingPowers key")
		if _, dup := t.bpOf[src(k)]; dup {
			die("bindingPowers", "duplicate key %s at %s", src(k), at(k))
		}
		t.bpOf[src(k)] = intLit(v, "bindingPowers["+src(k)+"]")
		t.bp = append(t.bp, fmt.Sprintf("(%s, %d)", tok, t.bpOf[src(k)]))
	}

	// projStop: the only comparison `bindingPowers[<ident>] < <int>` in parseProjectionRHS
	var stops []*ast.BinaryExpr
	ast.Inspect(funcBody(f, "parseProjectionRHS"), func(n ast.Node) bool {
		if b, ok := n.(*ast.BinaryExpr); ok && b.Op == token.LSS {
			if ix, ok := b.X.(*ast.IndexExpr); ok && src(ix.X) == "bindingPowers" {
				if _, isIdent := ix.Index.(*ast.Ident); isIdent {
					if _, isTok := tokNames[src(ix.Index)]; !isTok {
						stops = append(stops, b)
					}
				}
			}
		}
		return true
	})
	if len(stops) != 1 {
		die("projStop", "expected exactly one comparison `bindingPowers[<current token>] < <int>` in parseProjectionRHS, found %d", len(stops))
	}
	t.set("projStop", intLit(stops[0].Y, "projStop"))

	led := tokenSwitch(funcBody(f, "led"), "led")
	ltag := src(led.Tag)
	dot := clause(led, "led", "tDot")
	t.set("ledDotSub", t.one(dot, "parseDotRHS", ltag, "tDot", "led case tDot"))
	t.set("ledDotStar", t.one(dot, "parseProjectionRHS", ltag, "tDot", "led case tDot"))
	t.set("ledPipe", t.one(clause(led, "led", "tPipe"), "parseExpression", ltag, "tPipe", "led case tPipe"))
	t.set("ledOr", t.one(clause(led, "led", "tOr"), "parseExpression", ltag, "tOr", "led case tOr"))
	t.set("ledAnd", t.one(clause(led, "led", "tAnd"), "parseExpression", ltag, "tAnd", "led case tAnd"))
	arg := rbpArgs(funcBody(f, "parseFunctionArg"), "parseExpression", "parseFunctionArg")
	if len(arg) != 2 {
		die("parseFunctionArg", "expected exactly two parseExpression calls, found %d", len(arg))
	}
	t.set("ledArg", t.resolve(arg[0], "", "", "parseFunctionArg: first parseExpression call"))
	t.set("ledArgExpref", t.resolve(arg[1], "", "", "parseFunctionArg: second parseExpression call"))
	t.set("ledFlatten", t.one(clause(led, "led", "tFlatten"), "parseProjectionRHS", ltag, "tFlatten", "led case tFlatten"))

	// comparators: in the order their clause lists them when they share one clause (the usual
	// case), otherwise in the fixed order of cmpToks
	order := cmpToks
	first := clause(led, "led comparators", cmpToks[0])
	if len(first.List) == len(cmpToks) {
		order = nil
		for _, e := range first.List {
			order = append(order, src(e))
		}
	}
	var cmps []string
	for _, tk := range order {
		c := clause(led, "led comparators", tk)
		cmps = append(cmps, fmt.Sprintf("(%s, %d)", tokNames[tk], t.one(c, "parseExpression", ltag, tk, "led comparator case "+tk)))
	}
	t.fields = append(t.fields, "ledCmp := ["+strings.Join(cmps, ", ")+"]")
	t.set("ledBracketStar", t.one(clause(led, "led", "tLbracket"), "parseProjectionRHS", ltag, "tLbracket", "led case tLbracket"))

	nud := tokenSwitch(funcBody(f, "nud"), "nud")
	ntag := src(nud.Tag)
	t.set("nudStar", t.one(clause(nud, "nud", "tStar"), "parseProjectionRHS", ntag, "tStar", "nud case tStar"))
	t.set("nudFlatten", t.one(clause(nud, "nud", "tFlatten"), "parseProjectionRHS", ntag, "tFlatten", "nud case tFlatten"))
	t.set("nudBracketStar", t.one(clause(nud, "nud", "tLbracket"), "parseProjectionRHS", ntag, "tLbracket", "nud case tLbracket"))
	t.set("nudNot", t.one(clause(nud, "nud", "tNot"), "parseExpression", ntag, "tNot", "nud case tNot"))
	t.set("nudParen", t.one(clause(nud, "nud", "tLparen"), "parseExpression", ntag, "tLparen", "nud case tLparen"))

	t.set("msList", t.one(funcBody(f, "parseMultiSelectList"), "parseExpression", "", "", "parseMultiSelectList"))
	t.set("msHash", t.one(funcBody(f, "parseMultiSelectHash"), "parseExpression", "", "", "parseMultiSelectHash"))
	t.set("sliceProj", t.one(funcBody(f, "projectIfSlice"), "parseProjectionRHS", "", "", "projectIfSlice"))
	t.set("filterCond", t.one(funcBody(f, "parseFilter"), "parseExpression", "", "", "parseFilter"))
	t.set("filterRhs", t.one(funcBody(f, "parseFilter"), "parseProjectionRHS", "", "", "parseFilter"))
	t.set("top", t.one(funcBody(f, "Parse"), "parseExpression", "", "", "Parse"))
	return t
}

// ---- function table -----------------------------------------------------------

// localBindings: identifiers bound exactly once in body (`x := E`, `var x = E`, also inside a
// parenthesised var block) and never assigned again; an identifier used where a literal is
// expected is replaced by its binding.
func localBindings(body *ast.BlockStmt) map[string]ast.Expr {
	bound, count := map[string]ast.Expr{}, map[string]int{}
	ast.Inspect(body, func(n ast.Node) bool {
		switch s := n.(type) {
		case *ast.AssignStmt:
			for i, l := range s.Lhs {
				if id, ok := l.(*ast.Ident); ok {
					count[id.Name]++
					if s.Tok == token.DEFINE && len(s.Lhs) == len(s.Rhs) {
						bound[id.Name] = s.Rhs[i]
					}
				}
			}
		case *ast.ValueSpec:
			for i, id := range s.Names {
				count[id.Name]++
				if i < len(s.Values) {
					bound[id.Name] = s.Values[i]
				}
			}
		case *ast.IncDecStmt:
			if id, ok := s.X.(*ast.Ident); ok {
				count[id.Name] += 2
			}
		case *ast.UnaryExpr:
			if id, ok := s.X.(*ast.Ident); ok && s.Op == token.AND {
				count[id.Name] += 2 // address taken: could be written through the pointer
			}
		}
		return true
	})
	for name, c := range count {
		if c != 1 {
			delete(bound, name)
		}
	}
	return bound
}

func deref(e ast.Expr, bound map[string]ast.Expr) ast.Expr {
	for i := 0; i < 4; i++ {
		id, ok := e.(*ast.Ident)
		if !ok {
			return e
		}
		b, ok := bound[id.Name]
		if !ok {
			return e
		}
		e = b
	}
	return e
}

// extractFunctions reads the function table built in newFunctionCaller.  The table is the value
// given to the `functionTable` field (by `caller.functionTable = E`, or by `functionTable: E`
// in a composite literal); E is a map[string]functionEntry literal, or a local variable
// initialised with such a literal or with make(...) and filled by top-level statements
// `E["name"] = functionEntry{...}`.  Locally bound identifiers standing for argSpec / []argSpec /
// []jpType literals are replaced by their (single) binding.
func extractFunctions(f *ast.File) []string {
	body := funcBody(f, "newFunctionCaller")
	bound := localBindings(body)
	var rhs []ast.Expr
	ast.Inspect(body, func(n ast.Node) bool {
		switch a := n.(type) {
		case *ast.AssignStmt:
			for i := 0; i < len(a.Lhs); i++ {
				if sel, ok := a.Lhs[i].(*ast.SelectorExpr); ok && sel.Sel.Name == "functionTable" {
					if a.Tok != token.ASSIGN || len(a.Lhs) != 1 || len(a.Rhs) != 1 {
						die("functionTable", "statement at %s is not a plain `<x>.functionTable = <value>`", at(a))
					}
					rhs = append(rhs, a.Rhs[0])
				}
			}
		case *ast.KeyValueExpr:
			if id, ok := a.Key.(*ast.Ident); ok && id.Name == "functionTable" {
				rhs = append(rhs, a.Value)
			}
		}
		return true
	})
	if len(rhs) != 1 {
		die("functionTable", "expected exactly one place in newFunctionCaller where the functionTable field gets its value, found %d", len(rhs))
	}
	type entry struct{ k, v ast.Expr }
	var entries []entry
	addLit := func(e ast.Expr) {
		for _, el := range lit(e, "map[string]functionEntry", false, "functionTable") {
			k, v := kv(el, "functionTable")
			entries = append(entries, entry{k, v})
		}
	}
	if id, ok := rhs[0].(*ast.Ident); ok {
		init, ok := bound[id.Name]
		if !ok {
			die("functionTable", "`%s` is not a local variable with a single binding", id.Name)
		}
		if c, isCall := init.(*ast.CallExpr); isCall && src(c.Fun) == "make" && len(c.Args) >= 1 && src(c.Args[0]) == "map[string]functionEntry" {
			// empty to begin with
		} else {
			addLit(init)
		}
		uses := 0
		ast.Inspect(body, func(n ast.Node) bool {
			if x, ok := n.(*ast.Ident); ok && x.Name == id.Name {
				uses++
			}
			return true
		})
		fills := 0
		for _, st := range body.List {
			a, ok := st.(*ast.AssignStmt)
			if !ok || len(a.Lhs) != 1 || len(a.Rhs) != 1 || a.Tok != token.ASSIGN {
				continue
			}
			ix, ok := a.Lhs[0].(*ast.IndexExpr)
			if !ok || src(ix.X) != id.Name {
				continue
			}
			entries = append(entries, entry{ix.Index, a.Rhs[0]})
			fills++
		}
		if uses != fills+2 { // its declaration, its fills, its one use as the field value
			die("functionTable", "`%s` is used %d times besides %d top-level `%s[key] = entry` statements: some use is not understood", id.Name, uses-fills, fills, id.Name)
		}
	} else {
		addLit(rhs[0])
	}
	var out []string
	seen := map[string]bool{}
	for _, e := range entries {
		k, v := e.k, deref(e.v, bound)
		kb, ok := k.(*ast.BasicLit)
		key, err := strconv.Unquote(src(k))
		if !ok || kb.Kind != token.STRING || err != nil || seen[key] || strings.IndexFunc(key, func(r rune) bool {
			return r < ' ' || r > '~' || r == '"' || r == '\\'
		}) >= 0 {
			die("functionTable key", "`%s` at %s is not a unique, plain printable-ASCII string literal", src(k), at(k))
		}
		seen[key] = true
		what := fmt.Sprintf("functionTable[%q]", key)
		fl := fields(lit(v, "functionEntry", true, what), what, "name", "arguments", "handler", "hasExpRef")
		var args []string
		if a, ok := fl["arguments"]; ok {
			for _, spec := range lit(deref(a, bound), "[]argSpec", false, what+".arguments") {
				sf := fields(lit(deref(spec, bound), "argSpec", true, what+" argSpec"), what+" argSpec", "types", "variadic")
				if sf["types"] == nil {
					die(what, "argSpec at %s has no types field", at(spec))
				}
				var tys []string
				for _, ty := range lit(deref(sf["types"], bound), "[]jpType", false, what+" types") {
					tys = append(tys, named(ty, typeNames, what+" types"))
				}
				variadic := false
				if sf["variadic"] != nil {
					variadic = boolLit(sf["variadic"], what+" variadic")
				}
				args = append(args, fmt.Sprintf("{ types := [%s], variadic := %t }", strings.Join(tys, ", "), variadic))
			}
		}
		if fl["handler"] == nil {
			die(what, "entry at %s has no handler field", at(e.v))
		}
		hasExpRef := false
		if fl["hasExpRef"] != nil {
			hasExpRef = boolLit(fl["hasExpRef"], what+" hasExpRef")
		}
		out = append(out, fmt.Sprintf("  { key := \"%s\", args := [%s], handler := Handler.%s, hasExpRef := %t }",
			key, strings.Join(args, ", "), named(fl["handler"], handlerNames, what+" handler"), hasExpRef))
	}
	return out
}

// ---- main -----------------------------------------------------------------------

func extractLexer(dir string) string {
	lexer := parseFile(dir, "lexer.go", "identifierTrailingBits", "basicTokens", "whiteSpace")
	var trailing, basic, white []string
	for _, e := range lit(topValue(lexer, token.VAR, "identifierTrailingBits"), "", false, "identifierTrailingBits") {
		trailing = append(trailing, fmt.Sprint(intLit(e, "identifierTrailingBits")))
	}
	seen := map[uint64]bool{}
	for _, e := range lit(topValue(lexer, token.VAR, "basicTokens"), "map[rune]tokType", false, "basicTokens") {
		k, v := kv(e, "basicTokens")
		basic = append(basic, fmt.Sprintf("(%d, %s)", runeLit(k, "basicTokens key"), named(v, tokNames, "basicTokens value")))
		seen[runeLit(k, "basicTokens key")] = true
	}
	if len(seen) != len(basic) {
		die("basicTokens", "duplicate keys")
	}
	for _, e := range lit(topValue(lexer, token.VAR, "whiteSpace"), "map[rune]bool", false, "whiteSpace") {
		k, v := kv(e, "whiteSpace")
		// The lexer tests key presence (`_, ok := whiteSpace[r]`), so a key mapped
		// to false would be ambiguous between rule and behaviour: refuse it.
		if !boolLit(v, "whiteSpace value") {
			die("whiteSpace", "key %s at %s has value false; only `true` values are understood", src(k), at(k))
		}
		white = append(white, fmt.Sprint(runeLit(k, "whiteSpace key")))
	}
	var b strings.Builder
	fmt.Fprintf(&b, "def identifierStartBits : Nat := %d\n", intLit(topValue(lexer, token.CONST, "identifierStartBits"), "identifierStartBits"))
	fmt.Fprintf(&b, "def identifierTrailingBits : List Nat := [%s]\n", strings.Join(trailing, ", "))
	fmt.Fprintf(&b, "def basicTokens : List (Nat × TokType) := [%s]\n", strings.Join(basic, ", "))
	fmt.Fprintf(&b, "def whiteSpace : List Nat := [%s]\n\n", strings.Join(white, ", "))
	return b.String()
}

func main() {
	dir, outPath := "/repo", "/verif/lean/Jmes/Generated.lean"
	args := os.Args[1:]
	lexerFrom := ""
	functionsFrom := ""
	for len(args) >= 2 && (args[0] == "-lexer-from" || args[0] == "-functions-from") {
		if args[0] == "-lexer-from" {
			lexerFrom = args[1]
		} else {
			functionsFrom = args[1]
		}
		args = args[2:]
	}
	if len(args) > 2 {
		die("command line", "usage: extract [-lexer-from file] [-functions-from file] [repo-dir [output.lean]]")
	}
	if len(args) > 0 {
		dir = args[0]
	}
	if len(args) > 1 {
		outPath = args[1]
	}
	parserF := parseFile(dir, "parser.go", "bindingPowers")
	// The function table: read from the source of newFunctionCaller, or (-functions-from) taken from the output
	// of `harness fnprobe`, which reads the table of a fresh interpreter at run time (used by /verif/check when the
	// source no longer builds the table in a shape the rules above cover).
	var fnEntries []string
	if functionsFrom != "" {
		raw, err := ioutil.ReadFile(functionsFrom)
		if err != nil {
			die("-functions-from", "%v", err)
		}
		for _, l := range strings.Split(strings.TrimSpace(string(raw)), "\n") {
			l = strings.TrimSpace(l)
			if !strings.HasPrefix(l, "{ key := ") {
				die("-functions-from", "unexpected line %q", l)
			}
			fnEntries = append(fnEntries, "  "+strings.TrimSuffix(l, ","))
		}
	} else {
		fnEntries = extractFunctions(parseFile(dir, "functions.go"))
	}

	// The four lexer tables: read from the literals in lexer.go, or (-lexer-from) taken from the
	// output of `harness lexprobe`, which derives them by exhaustive execution of the library.
	var lexerDefs string
	if lexerFrom != "" {
		raw, err := ioutil.ReadFile(lexerFrom)
		if err != nil {
			die("-lexer-from", "%v", err)
		}
		lines := strings.Split(strings.TrimSpace(string(raw)), "\n")
		prefixes := []string{"def identifierStartBits : Nat := ", "def identifierTrailingBits : List Nat := [",
			"def basicTokens : List (Nat × TokType) := [", "def whiteSpace : List Nat := ["}
		if len(lines) != len(prefixes) {
			die("-lexer-from", "expected %d definitions, found %d lines", len(prefixes), len(lines))
		}
		for i, l := range lines {
			if !strings.HasPrefix(l, prefixes[i]) {
				die("-lexer-from", "line %d does not start with %q", i+1, prefixes[i])
			}
		}
		lexerDefs = "-- lexer tables: derived by exhaustive execution (harness lexprobe); lexer.go no longer spells them as literals\n" +
			strings.Join(lines, "\n") + "\n\n"
	} else {
		lexerDefs = extractLexer(dir)
	}
	pt := extractParser(parserF)

	var b strings.Builder
	// The header is a fixed string so that outputs from different source directories are comparable.
	b.WriteString("-- GENERATED by /verif/tools/extract from /repo (working tree). Do not edit.\n")
	b.WriteString("import Jmes.Token\nnamespace Jmes.Generated\nopen Jmes TokType JpType Handler\n\n")
	b.WriteString(lexerDefs)
	fmt.Fprintf(&b, "def table : ParserTable := {\n  bp := [%s],\n  %s }\n\n", strings.Join(pt.bp, ", "), strings.Join(pt.fields, ",\n  "))
	if functionsFrom != "" {
		b.WriteString("-- function table: read at run time from a fresh interpreter (harness fnprobe); functions.go no longer builds it in a shape the extractor reads\n")
	}
	fmt.Fprintf(&b, "def functionTable : List FnEntry := [\n%s\n]\n\nend Jmes.Generated\n", strings.Join(fnEntries, ",\n"))

	if err := ioutil.WriteFile(outPath, []byte(b.String()), 0o644); err != nil {
		fmt.Fprintf(os.Stderr, "extract: cannot write %s: %v\n", outPath, err)
		os.Exit(1)
	}
}
