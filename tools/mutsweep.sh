#!/bin/sh
# usage: mutsweep.sh [glob]  -- run the quick check of its own property against every seeded change; one line each
cd /verif
for d in seeded/*/; do
  id=$(basename $d); prop=${id%%-*}
  if [ -n "$1" ]; then case "$id" in $1) ;; *) continue;; esac; fi
  out=$(tools/mutcheck.sh /verif/$d/patch.diff $prop quick 2>&1)
  if echo "$out" | grep -q "^VIOLATION"; then
    echo "CAUGHT $id: $(echo "$out" | grep '^VIOLATION' | head -1 | cut -c1-160)"
  else
    echo "MISSED $id: $(echo "$out" | tail -1 | cut -c1-200)"
  fi
done
