module verifgotolean

go 1.14
