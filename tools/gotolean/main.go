// Command gotolean translates the integer functions of util.go (capSlice and
// computeSliceParams: the whole arithmetic of a slice expression) from Go source
// into Lean 4 definitions.  usage: gotolean <repo-dir> <output.lean>
//
// It is a translator for a small, explicitly listed subset of Go; anything outside the
// subset is refused (`gotolean: cannot translate <what>: <why>`, exit status 3, no output
// file), never guessed.  /verif/check then falls back to the hand-written model of these
// two functions (Jmes/Slice.lean), which stays tied to the code by the exhaustive slice
// window of the correspondence harness; the evidence file records which tie was in force.
//
// The function `slice` (the two loops) is translated by PATTERN: its body must be, up to the names of
// the variables, `c, err := computeSliceParams(len(s), parts); if err != nil { return nil, err };
// a, b, st := c[0], c[1], c[2]; r := []interface{}{}; if <test> { <loop> } else { <loop> }; return r, nil`
// with each <loop> of the form `for i := a; <cond>; <post> { r = append(r, s[<index>]); if <guard> { break } }`.
// <test>, <cond>, <guard> (boolean), <index> (integer) and <post> (an assignment to i) are translated
// as ordinary expressions of the subset, so a changed comparison, index or increment is translated
// faithfully; the loop itself becomes structural recursion on a fuel argument (exhaustion = "does not
// terminate") that returns the appended elements in iteration order, `s[e]` outside the list is Go's
// index panic.  Any other shape of `slice` is refused for the loops only: the output then carries the
// hand-written loops (`loopsTranslated := false`) and the arithmetic is still the translated one.
//
// Subset (statements): `var a, b T` (zero values), `x := e`, `x = e`, `x += e`, `x -= e`,
// `if c { … } else if … else { … }` (no init statement), `return e…`.
// Subset (expressions): identifiers, integer literals, `true`/`false`, `nil`, unary `-` `!`,
// binary `+ - *` (64-bit wrap-around: `wrap64`), comparisons, `&&`, `||`, calls of functions
// translated in the same run, `p[k].F` for a parameter `p []sliceParam`, a constant `k` and a
// field `F` of sliceParam, `[]int{…}`, `errors.New("…")`.
//
// Semantics of the translation: Go's `int` is Lean's `Int` with every `+ - *` wrapped to 64
// bits; assignment is shadowing (`let x := …`); an `if` statement is translated in
// continuation-passing style (the statements after it are repeated at the end of each branch
// that falls through), so early returns need no encoding; a result list `(T, error)` becomes
// `Except String T`; `p[k]` on the slice parameter is `p.getD k default` — Go would panic for
// `k ≥ len(p)`, and the tie theorem is stated for the three-element lists the only caller
// builds (interpreter.go, ASTSlice: `make([]sliceParam, 3)`).
package main

import (
	"fmt"
	"go/ast"
	"go/parser"
	"go/token"
	"io/ioutil"
	"os"
	"path/filepath"
	"strconv"
	"strings"
)

type refusal string

var softMode *bool

func die(what, format string, a ...interface{}) {
	if softMode != nil && *softMode {
		panic(refusal(what + ": " + fmt.Sprintf(format, a...)))
	}
	fmt.Fprintf(os.Stderr, "gotolean: cannot translate %s: %s\n", what, fmt.Sprintf(format, a...))
	os.Exit(3)
}

type kind int

const (
	kInt kind = iota
	kBool
	kParams // []sliceParam
	kIntList
	kErr
)

type fn struct {
	name    string
	decl    *ast.FuncDecl
	params  []string
	pkinds  []kind
	results []kind // kInt | kIntList,kErr
}

type tr struct {
	lenVar string // index mode: the []interface{} variable whose len is the parameter `length`
	soft   bool
	fns    map[string]*fn
	fields map[string]kind // fields of sliceParam
	cur    *fn
}

func (t *tr) typeKind(e ast.Expr, what string) kind {
	switch x := e.(type) {
	case *ast.Ident:
		switch x.Name {
		case "int":
			return kInt
		case "bool":
			return kBool
		case "error":
			return kErr
		}
	case *ast.ArrayType:
		if x.Len == nil {
			if id, ok := x.Elt.(*ast.Ident); ok {
				if id.Name == "sliceParam" {
					return kParams
				}
				if id.Name == "int" {
					return kIntList
				}
			}
		}
	}
	die(what, "type outside the subset")
	return kInt
}

func leanName(s string) string {
	switch s {
	case "end", "then", "from", "at", "open", "fun", "do", "in", "let", "have", "show", "match", "with", "where", "if", "else", "Type", "by":
		return s + "'"
	}
	return s
}

// expr translates an expression; env maps Go variable names to kinds.
func (t *tr) expr(e ast.Expr, env map[string]kind) (string, kind) {
	what := t.cur.name
	switch x := e.(type) {
	case *ast.ParenExpr:
		return t.expr(x.X, env)
	case *ast.BasicLit:
		if x.Kind != token.INT {
			die(what, "literal %s", x.Value)
		}
		v, err := strconv.ParseInt(x.Value, 0, 64)
		if err != nil {
			die(what, "integer literal %s", x.Value)
		}
		return fmt.Sprintf("(%d : Int)", v), kInt
	case *ast.Ident:
		switch x.Name {
		case "true", "false":
			return x.Name, kBool
		}
		k, ok := env[x.Name]
		if !ok {
			die(what, "identifier %s is not a local variable or parameter", x.Name)
		}
		return leanName(x.Name), k
	case *ast.UnaryExpr:
		s, k := t.expr(x.X, env)
		switch x.Op {
		case token.SUB:
			if k != kInt {
				die(what, "unary - on a non-integer")
			}
			if lit, isLit := x.X.(*ast.BasicLit); isLit {
				return "(-" + lit.Value + " : Int)", kInt
			}
			return "(wrap64 (-" + s + "))", kInt
		case token.NOT:
			if k != kBool {
				die(what, "! on a non-boolean")
			}
			return "(!" + s + ")", kBool
		}
		die(what, "unary operator %s", x.Op)
	case *ast.BinaryExpr:
		l, lk := t.expr(x.X, env)
		r, rk := t.expr(x.Y, env)
		switch x.Op {
		case token.ADD, token.SUB, token.MUL:
			if lk != kInt || rk != kInt {
				die(what, "arithmetic on non-integers")
			}
			return fmt.Sprintf("(wrap64 (%s %s %s))", l, x.Op, r), kInt
		case token.LSS, token.LEQ, token.GTR, token.GEQ:
			if lk != kInt || rk != kInt {
				die(what, "ordering on non-integers")
			}
			op := map[token.Token]string{token.LSS: "<", token.LEQ: "≤", token.GTR: ">", token.GEQ: "≥"}[x.Op]
			return fmt.Sprintf("(decide (%s %s %s))", l, op, r), kBool
		case token.EQL, token.NEQ:
			if lk != rk || (lk != kInt && lk != kBool) {
				die(what, "== on operands outside the subset")
			}
			if x.Op == token.EQL {
				return fmt.Sprintf("(%s == %s)", l, r), kBool
			}
			return fmt.Sprintf("(%s != %s)", l, r), kBool
		case token.LAND, token.LOR:
			if lk != kBool || rk != kBool {
				die(what, "logical operator on non-booleans")
			}
			op := "&&"
			if x.Op == token.LOR {
				op = "||"
			}
			return fmt.Sprintf("(%s %s %s)", l, op, r), kBool
		}
		die(what, "binary operator %s", x.Op)
	case *ast.SelectorExpr:
		// p[k].F
		ix, ok := x.X.(*ast.IndexExpr)
		if !ok {
			die(what, "selector .%s on something that is not p[k]", x.Sel.Name)
		}
		id, ok := ix.X.(*ast.Ident)
		if !ok || env[id.Name] != kParams {
			die(what, "indexing something that is not the []sliceParam parameter")
		}
		lit, ok := ix.Index.(*ast.BasicLit)
		if !ok || lit.Kind != token.INT {
			die(what, "non-constant subscript of %s", id.Name)
		}
		fk, ok := t.fields[x.Sel.Name]
		if !ok {
			die(what, "sliceParam has no field %s", x.Sel.Name)
		}
		return fmt.Sprintf("(%s.getD %s default).%s", leanName(id.Name), lit.Value, x.Sel.Name), fk
	case *ast.CallExpr:
		id, ok := x.Fun.(*ast.Ident)
		if !ok {
			die(what, "call of something that is not a plain function")
		}
		if id.Name == "len" && t.lenVar != "" && len(x.Args) == 1 {
			if a, ok := x.Args[0].(*ast.Ident); ok && a.Name == t.lenVar {
				return "length", kInt
			}
		}
		f, ok := t.fns[id.Name]
		if !ok || len(f.results) != 1 {
			die(what, "call of %s (only single-result functions translated in this run may be called)", id.Name)
		}
		if len(x.Args) != len(f.params) {
			die(what, "call of %s: argument count", id.Name)
		}
		parts := []string{leanName(f.name)}
		for i, a := range x.Args {
			s, k := t.expr(a, env)
			if k != f.pkinds[i] {
				die(what, "call of %s: argument %d has the wrong type", id.Name, i)
			}
			parts = append(parts, s)
		}
		return "(" + strings.Join(parts, " ") + ")", f.results[0]
	}
	die(what, "expression of kind %T", e)
	return "", kInt
}

func copyEnv(env map[string]kind) map[string]kind {
	n := map[string]kind{}
	for k, v := range env {
		n[k] = v
	}
	return n
}

// stmts translates a statement list followed by the continuation `rest` (further statement
// lists, innermost first).  Every path must end in a return.
func (t *tr) stmts(list []ast.Stmt, rest [][]ast.Stmt, env map[string]kind, ind string) string {
	what := t.cur.name
	if len(list) == 0 {
		if len(rest) == 0 {
			die(what, "a path reaches the end of the function without a return")
		}
		return t.stmts(rest[0], rest[1:], env, ind)
	}
	s, tail := list[0], list[1:]
	switch x := s.(type) {
	case *ast.DeclStmt:
		gd, ok := x.Decl.(*ast.GenDecl)
		if !ok || gd.Tok != token.VAR {
			die(what, "declaration other than var")
		}
		out := ""
		env = copyEnv(env)
		for _, sp := range gd.Specs {
			vs := sp.(*ast.ValueSpec)
			if len(vs.Values) != 0 || vs.Type == nil {
				die(what, "var with initialiser (use :=)")
			}
			k := t.typeKind(vs.Type, what)
			zero := map[kind]string{kInt: "(0 : Int)", kBool: "false"}[k]
			if zero == "" {
				die(what, "var of a type without a zero value in the subset")
			}
			for _, n := range vs.Names {
				out += fmt.Sprintf("%slet %s := %s\n", ind, leanName(n.Name), zero)
				env[n.Name] = k
			}
		}
		return out + t.stmts(tail, rest, env, ind)
	case *ast.AssignStmt:
		if len(x.Lhs) != 1 || len(x.Rhs) != 1 {
			die(what, "multiple assignment")
		}
		id, ok := x.Lhs[0].(*ast.Ident)
		if !ok {
			die(what, "assignment to something that is not a variable")
		}
		rhs, k := t.expr(x.Rhs[0], env)
		env = copyEnv(env)
		switch x.Tok {
		case token.DEFINE:
			env[id.Name] = k
		case token.ASSIGN:
			if k0, known := env[id.Name]; !known || k0 != k {
				die(what, "assignment to %s: undeclared or of another type", id.Name)
			}
		case token.ADD_ASSIGN, token.SUB_ASSIGN:
			if env[id.Name] != kInt || k != kInt {
				die(what, "%s on non-integers", x.Tok)
			}
			op := "+"
			if x.Tok == token.SUB_ASSIGN {
				op = "-"
			}
			rhs = fmt.Sprintf("(wrap64 (%s %s %s))", leanName(id.Name), op, rhs)
		default:
			die(what, "assignment operator %s", x.Tok)
		}
		if _, known := env[id.Name]; !known {
			die(what, "assignment to undeclared %s", id.Name)
		}
		return fmt.Sprintf("%slet %s := %s\n", ind, leanName(id.Name), rhs) + t.stmts(tail, rest, env, ind)
	case *ast.IfStmt:
		if x.Init != nil {
			die(what, "if with an init statement")
		}
		c, k := t.expr(x.Cond, env)
		if k != kBool {
			die(what, "if condition is not boolean")
		}
		cont := append([][]ast.Stmt{tail}, rest...)
		out := fmt.Sprintf("%sif %s = true then\n", ind, c)
		out += t.stmts(x.Body.List, cont, env, ind+"  ")
		out += ind + "else\n"
		switch e := x.Else.(type) {
		case nil:
			out += t.stmts(nil, cont, env, ind+"  ")
		case *ast.BlockStmt:
			out += t.stmts(e.List, cont, env, ind+"  ")
		case *ast.IfStmt:
			out += t.stmts([]ast.Stmt{e}, cont, env, ind+"  ")
		default:
			die(what, "else branch of kind %T", e)
		}
		return out
	case *ast.BlockStmt:
		return t.stmts(x.List, append([][]ast.Stmt{tail}, rest...), env, ind)
	case *ast.ReturnStmt:
		if t.lenVar != "" {
			// index mode: `return X[e], nil` selects position e; `return nil, nil` is null
			if len(x.Results) != 2 {
				die(what, "return with %d values", len(x.Results))
			}
			if id, ok := x.Results[1].(*ast.Ident); !ok || id.Name != "nil" {
				die(what, "a return with an error inside the index clause")
			}
			if id, ok := x.Results[0].(*ast.Ident); ok && id.Name == "nil" {
				return ind + "none\n"
			}
			ix, ok := x.Results[0].(*ast.IndexExpr)
			if !ok {
				die(what, "the returned value is neither nil nor an element of the array")
			}
			if id, ok := ix.X.(*ast.Ident); !ok || id.Name != t.lenVar {
				die(what, "the returned element is not taken from the array")
			}
			v, k := t.expr(ix.Index, env)
			if k != kInt {
				die(what, "subscript is not an integer")
			}
			return ind + "some " + v + "\n"
		}
		res := t.cur.results
		if len(x.Results) != len(res) {
			die(what, "return with %d values", len(x.Results))
		}
		if len(res) == 1 {
			v, k := t.expr(x.Results[0], env)
			if k != res[0] {
				die(what, "return value of the wrong type")
			}
			return ind + v + "\n"
		}
		// (list, error)
		isNil := func(e ast.Expr) bool { id, ok := e.(*ast.Ident); return ok && id.Name == "nil" }
		if isNil(x.Results[1]) {
			cl, ok := x.Results[0].(*ast.CompositeLit)
			if !ok || t.typeKind(cl.Type, what) != kIntList {
				die(what, "first result of a successful return is not a []int literal")
			}
			var els []string
			for _, el := range cl.Elts {
				v, k := t.expr(el, env)
				if k != kInt {
					die(what, "[]int literal with a non-integer element")
				}
				els = append(els, v)
			}
			return ind + ".ok [" + strings.Join(els, ", ") + "]\n"
		}
		if !isNil(x.Results[0]) {
			die(what, "return with both a value and an error")
		}
		call, ok := x.Results[1].(*ast.CallExpr)
		if ok {
			if sel, ok2 := call.Fun.(*ast.SelectorExpr); ok2 && len(call.Args) == 1 {
				if pk, ok3 := sel.X.(*ast.Ident); ok3 && pk.Name == "errors" && sel.Sel.Name == "New" {
					if lit, ok4 := call.Args[0].(*ast.BasicLit); ok4 && lit.Kind == token.STRING {
						return ind + ".error " + strconv.Quote(mustUnquote(lit.Value)) + "\n"
					}
				}
			}
		}
		die(what, "error result is not errors.New(\"…\")")
	}
	die(what, "statement of kind %T", s)
	return ""
}



// ---- the index clause of Execute (interpreter.go): `case ASTIndex:` first `if X, ok := value.([]interface{}); ok { … }` ----

func (t *tr) tryIndex(dir string) (out string, why string) {
	defer func() {
		if r := recover(); r != nil {
			if m, ok := r.(refusal); ok {
				out, why = "", string(m)
				return
			}
			panic(r)
		}
	}()
	t.soft = true
	defer func() { t.soft = false; t.lenVar = "" }()
	no := func(format string, a ...interface{}) { panic(refusal(fmt.Sprintf(format, a...))) }
	fset := token.NewFileSet()
	file, err := parser.ParseFile(fset, filepath.Join(dir, "interpreter.go"), nil, 0)
	if err != nil {
		no("interpreter.go: %v", err)
	}
	var clause *ast.CaseClause
	ast.Inspect(file, func(n ast.Node) bool {
		cc, ok := n.(*ast.CaseClause)
		if ok && len(cc.List) == 1 {
			if id, ok := cc.List[0].(*ast.Ident); ok && id.Name == "ASTIndex" {
				if clause != nil {
					no("two clauses `case ASTIndex:`")
				}
				clause = cc
			}
		}
		return true
	})
	if clause == nil || len(clause.Body) == 0 {
		no("no clause `case ASTIndex:` in interpreter.go")
	}
	ifs, ok := clause.Body[0].(*ast.IfStmt)
	if !ok || ifs.Init == nil {
		no("the index clause does not start with `if X, ok := value.([]interface{}); ok`")
	}
	in, ok := ifs.Init.(*ast.AssignStmt)
	if !ok || in.Tok != token.DEFINE || len(in.Lhs) != 2 || len(in.Rhs) != 1 {
		no("the index clause does not start with a checked type assertion")
	}
	ta, ok := in.Rhs[0].(*ast.TypeAssertExpr)
	if !ok {
		no("the index clause does not start with a type assertion")
	}
	if at, ok := ta.Type.(*ast.ArrayType); !ok || at.Len != nil {
		no("the asserted type is not a slice")
	} else if it, ok := at.Elt.(*ast.InterfaceType); !ok || it.Methods == nil || len(it.Methods.List) != 0 {
		no("the asserted type is not []interface{}")
	}
	arr, okName := in.Lhs[0].(*ast.Ident), in.Lhs[1].(*ast.Ident)
	if c, ok := ifs.Cond.(*ast.Ident); !ok || c.Name != okName.Name {
		no("the condition is not the ok of the assertion")
	}
	body := ifs.Body.List
	if len(body) < 2 {
		no("the index clause is too short")
	}
	a0, ok := body[0].(*ast.AssignStmt)
	if !ok || a0.Tok != token.DEFINE || len(a0.Lhs) != 1 || len(a0.Rhs) != 1 {
		no("the index is not read with `i := node.value.(int)`")
	}
	ia, ok := a0.Rhs[0].(*ast.TypeAssertExpr)
	if !ok {
		no("the index is not read with a type assertion")
	}
	if id, ok := ia.Type.(*ast.Ident); !ok || id.Name != "int" {
		no("the index is not asserted to int")
	}
	iName := a0.Lhs[0].(*ast.Ident).Name
	t.cur = &fn{name: "index clause"}
	t.lenVar = arr.Name
	env := map[string]kind{iName: kInt}
	text := t.stmts(body[1:], nil, env, "  ")
	return fmt.Sprintf("def indexSel (length : Int) (%s : Int) : Option Int :=\n%s\n", leanName(iName), text), ""
}

const fallbackIndex = `def indexSel (length : Int) (index : Int) : Option Int :=
  if (decide (index < (0 : Int))) = true then
    let index := (wrap64 (index + length))
    if ((decide (index < length)) && (decide (index ≥ (0 : Int)))) = true then
      some index
    else
      none
  else
    if ((decide (index < length)) && (decide (index ≥ (0 : Int)))) = true then
      some index
    else
      none

`


// ---- isFalse (util.go): the type switch over the decoded-JSON types ----
//
// Shape: `switch v := value.(type) { case T: return E … }` with T among bool, []interface{},
// map[string]interface{}, string, nil (one type per clause, one return per clause; in E the variable may
// be used directly when it is a bool and only as len(v) otherwise), followed by the reflection cases:
// `rv := reflect.ValueOf(value)`, a `switch rv.Kind()` without a default clause and without
// reflect.Float64 among its cases, and a final `return false` — which is what a float64 reaches.

func (t *tr) tryIsFalse(file *ast.File) (out string, why string) {
	defer func() {
		if r := recover(); r != nil {
			if m, ok := r.(refusal); ok {
				out, why = "", string(m)
				return
			}
			panic(r)
		}
	}()
	t.soft = true
	defer func() { t.soft = false; t.lenVar = "" }()
	no := func(format string, a ...interface{}) { panic(refusal(fmt.Sprintf(format, a...))) }
	var fd *ast.FuncDecl
	for _, d := range file.Decls {
		if f, ok := d.(*ast.FuncDecl); ok && f.Name.Name == "isFalse" && f.Recv == nil {
			fd = f
		}
	}
	if fd == nil {
		no("function isFalse not found")
	}
	t.cur = &fn{name: "isFalse", results: []kind{kBool}}
	if len(fd.Type.Params.List) != 1 || len(fd.Type.Params.List[0].Names) != 1 {
		no("isFalse: expected one parameter")
	}
	pName := fd.Type.Params.List[0].Names[0].Name
	st := fd.Body.List
	if len(st) < 2 {
		no("isFalse: too short")
	}
	ts, ok := st[0].(*ast.TypeSwitchStmt)
	if !ok || ts.Init != nil {
		no("isFalse does not start with a type switch")
	}
	as, ok := ts.Assign.(*ast.AssignStmt)
	if !ok || len(as.Lhs) != 1 || len(as.Rhs) != 1 {
		no("isFalse: the type switch does not bind a variable")
	}
	vName := as.Lhs[0].(*ast.Ident).Name
	if ta, ok := as.Rhs[0].(*ast.TypeAssertExpr); !ok || ta.Type != nil {
		no("isFalse: not a type switch on the parameter")
	} else if id, ok := ta.X.(*ast.Ident); !ok || id.Name != pName {
		no("isFalse: the type switch is not on the parameter")
	}
	arms := map[string]string{}
	for _, c := range ts.Body.List {
		cc := c.(*ast.CaseClause)
		if len(cc.List) != 1 {
			no("isFalse: a clause with %d types (default clauses and lists are outside the shape)", len(cc.List))
		}
		var con string
		switch ty := cc.List[0].(type) {
		case *ast.Ident:
			switch ty.Name {
			case "bool":
				con = "bool"
			case "string":
				con = "str"
			case "nil":
				con = "null"
			default:
				no("isFalse: clause for type %s", ty.Name)
			}
		case *ast.ArrayType:
			if it, ok := ty.Elt.(*ast.InterfaceType); !ok || ty.Len != nil || len(it.Methods.List) != 0 {
				no("isFalse: clause for a slice type other than []interface{}")
			}
			con = "arr"
		case *ast.MapType:
			k, ok1 := ty.Key.(*ast.Ident)
			it, ok2 := ty.Value.(*ast.InterfaceType)
			if !ok1 || k.Name != "string" || !ok2 || len(it.Methods.List) != 0 {
				no("isFalse: clause for a map type other than map[string]interface{}")
			}
			con = "obj"
		default:
			no("isFalse: clause for a type outside the shape")
		}
		if _, dup := arms[con]; dup {
			no("isFalse: two clauses for %s", con)
		}
		if len(cc.Body) != 1 {
			no("isFalse: the clause for %s is not a single return", con)
		}
		ret, ok := cc.Body[0].(*ast.ReturnStmt)
		if !ok || len(ret.Results) != 1 {
			no("isFalse: the clause for %s is not a single return", con)
		}
		env := map[string]kind{}
		t.lenVar = ""
		if con == "bool" {
			env[vName] = kBool
		} else if con != "null" {
			t.lenVar = vName
		}
		e, k := t.expr(ret.Results[0], env)
		if k != kBool {
			no("isFalse: the clause for %s does not return a boolean", con)
		}
		arms[con] = e
	}
	t.lenVar = ""
	// the reflection part, as far as a float64 is concerned
	rest := st[1:]
	last, ok := rest[len(rest)-1].(*ast.ReturnStmt)
	if !ok || len(last.Results) != 1 {
		no("isFalse does not end with a return")
	}
	if id, ok := last.Results[0].(*ast.Ident); !ok || id.Name != "false" {
		no("isFalse does not end with `return false`")
	}
	for _, x := range rest[:len(rest)-1] {
		switch y := x.(type) {
		case *ast.AssignStmt:
			// rv := reflect.ValueOf(value)
			if len(y.Rhs) != 1 {
				no("isFalse: unexpected assignment before the final return")
			}
			call, ok := y.Rhs[0].(*ast.CallExpr)
			if !ok {
				no("isFalse: unexpected assignment before the final return")
			}
			if sel, ok := call.Fun.(*ast.SelectorExpr); !ok || sel.Sel.Name != "ValueOf" {
				no("isFalse: unexpected call before the final return")
			}
		case *ast.SwitchStmt:
			call, ok := y.Tag.(*ast.CallExpr)
			if !ok {
				no("isFalse: the second switch is not on rv.Kind()")
			}
			if sel, ok := call.Fun.(*ast.SelectorExpr); !ok || sel.Sel.Name != "Kind" {
				no("isFalse: the second switch is not on rv.Kind()")
			}
			for _, c := range y.Body.List {
				cc := c.(*ast.CaseClause)
				if len(cc.List) == 0 {
					no("isFalse: the Kind switch has a default clause")
				}
				for _, e := range cc.List {
					sel, ok := e.(*ast.SelectorExpr)
					if !ok {
						no("isFalse: a Kind case that is not reflect.X")
					}
					if strings.HasPrefix(sel.Sel.Name, "Float") || sel.Sel.Name == "Invalid" || sel.Sel.Name == "Interface" {
						no("isFalse: the Kind switch handles %s", sel.Sel.Name)
					}
				}
			}
		default:
			no("isFalse: statement of kind %T before the final return", x)
		}
	}
	var sb strings.Builder
	sb.WriteString("def isFalse {N : Type} : Val N → Bool\n")
	emit := func(con, pat, bind string) {
		e, ok := arms[con]
		if !ok {
			// no clause: the value reaches the reflection part; for the decoded-JSON types that have a
			// clause in the pinned source this would change the meaning, so say what is assumed
			no("isFalse: no clause for %s", con)
		}
		fmt.Fprintf(&sb, "  | %s =>%s %s\n", pat, bind, e)
	}
	emit("null", ".null", "")
	emit("bool", ".bool "+leanName(vName), "")
	emit("str", ".str s", " let length : Int := s.length;")
	emit("arr", ".arr xs", " let length : Int := xs.length;")
	emit("obj", ".obj kvs", " let length : Int := kvs.length;")
	sb.WriteString("  | .num _ => false   -- a float64 matches no clause of the type switch and no case of the Kind switch\n\n")
	return sb.String(), ""
}

const fallbackIsFalse = `def isFalse {N : Type} : Val N → Bool := Val.isFalse

`


// ---- the comparator clause of Execute (interpreter.go, `case ASTComparator:`) ----
//
// After the two operand evaluations (`left, err := intr.Execute(node.children[0], value)` … — skipped: every
// statement up to and including the second `if err != nil { return nil, err }`), the clause is a sequence of
//   * `switch node.value { case tXX: return E, nil … }` with E built from `objsEqual(left, right)`, `!`, and
//     comparisons `a OP b` of the asserted numbers,
//   * `x, ok := <operand>.(float64)` followed by `if !ok { return nil, nil }`,
// translated in order (so moving the number assertions in front of the equality switch changes the translation).

var cmpTokNames = map[string]string{"tEQ": "eq", "tNE": "ne", "tLT": "lt", "tLTE": "lte", "tGT": "gt", "tGTE": "gte"}

func (t *tr) tryComparator(dir string) (out string, why string) {
	defer func() {
		if r := recover(); r != nil {
			if m, ok := r.(refusal); ok {
				out, why = "", string(m)
				return
			}
			panic(r)
		}
	}()
	no := func(format string, a ...interface{}) { panic(refusal(fmt.Sprintf(format, a...))) }
	fset := token.NewFileSet()
	file, err := parser.ParseFile(fset, filepath.Join(dir, "interpreter.go"), nil, 0)
	if err != nil {
		no("interpreter.go: %v", err)
	}
	var clause *ast.CaseClause
	ast.Inspect(file, func(n ast.Node) bool {
		if cc, ok := n.(*ast.CaseClause); ok && len(cc.List) == 1 {
			if id, ok := cc.List[0].(*ast.Ident); ok && id.Name == "ASTComparator" {
				if clause != nil {
					no("two clauses `case ASTComparator:`")
				}
				clause = cc
			}
		}
		return true
	})
	if clause == nil {
		no("no clause `case ASTComparator:`")
	}
	// skip the operand evaluations: up to the second `if err != nil { return nil, err }`
	body := clause.Body
	seen, start := 0, -1
	var operands []string
	for i, st := range body {
		if as, ok := st.(*ast.AssignStmt); ok && len(as.Lhs) == 2 && len(as.Rhs) == 1 {
			if call, ok := as.Rhs[0].(*ast.CallExpr); ok {
				if sel, ok := call.Fun.(*ast.SelectorExpr); ok && sel.Sel.Name == "Execute" {
					if id, ok := as.Lhs[0].(*ast.Ident); ok {
						operands = append(operands, id.Name)
					}
				}
			}
		}
		if is, ok := st.(*ast.IfStmt); ok && is.Init == nil {
			if be, ok := is.Cond.(*ast.BinaryExpr); ok && be.Op == token.NEQ {
				if x, ok := be.X.(*ast.Ident); ok && x.Name == "err" {
					seen++
					if seen == 2 {
						start = i + 1
						break
					}
				}
			}
		}
	}
	if start < 0 || len(operands) != 2 {
		no("the comparator clause does not start with two checked operand evaluations")
	}
	left, right := operands[0], operands[1]
	nums := map[string]bool{} // variables asserted to float64
	var expr func(e ast.Expr) string
	expr = func(e ast.Expr) string {
		switch x := e.(type) {
		case *ast.ParenExpr:
			return expr(x.X)
		case *ast.UnaryExpr:
			if x.Op == token.NOT {
				return "(!" + expr(x.X) + ")"
			}
		case *ast.CallExpr:
			if id, ok := x.Fun.(*ast.Ident); ok && id.Name == "objsEqual" && len(x.Args) == 2 {
				a, okA := x.Args[0].(*ast.Ident)
				b, okB := x.Args[1].(*ast.Ident)
				if okA && okB && (a.Name == left || a.Name == right) && (b.Name == left || b.Name == right) {
					return "(Val.deepEq " + leanName(a.Name) + " " + leanName(b.Name) + ")"
				}
			}
		case *ast.BinaryExpr:
			a, okA := x.X.(*ast.Ident)
			b, okB := x.Y.(*ast.Ident)
			if okA && okB && nums[a.Name] && nums[b.Name] {
				switch x.Op {
				case token.LSS:
					return "(NumOps.lt " + leanName(a.Name) + " " + leanName(b.Name) + ")"
				case token.LEQ:
					return "(NumOps.le " + leanName(a.Name) + " " + leanName(b.Name) + ")"
				case token.GTR:
					return "(NumOps.lt " + leanName(b.Name) + " " + leanName(a.Name) + ")"
				case token.GEQ:
					return "(NumOps.le " + leanName(b.Name) + " " + leanName(a.Name) + ")"
				}
			}
		}
		no("expression outside the shape of the comparator clause")
		return ""
	}
	var seq func(sts []ast.Stmt, ind string) string
	seq = func(sts []ast.Stmt, ind string) string {
		if len(sts) == 0 {
			return ind + ".null  -- falls out of the clause\n"
		}
		switch x := sts[0].(type) {
		case *ast.SwitchStmt:
			sel, ok := x.Tag.(*ast.SelectorExpr)
			if !ok || sel.Sel.Name != "value" || x.Init != nil {
				no("a switch that is not on node.value")
			}
			res := ind + "match op with\n"
			for _, c := range x.Body.List {
				cc := c.(*ast.CaseClause)
				if len(cc.List) == 0 {
					no("default clause in a comparator switch")
				}
				if len(cc.Body) != 1 {
					no("a comparator case that is not a single return")
				}
				ret, ok := cc.Body[0].(*ast.ReturnStmt)
				if !ok || len(ret.Results) != 2 {
					no("a comparator case that is not `return E, nil`")
				}
				if id, ok := ret.Results[1].(*ast.Ident); !ok || id.Name != "nil" {
					no("a comparator case returning an error")
				}
				val := ".null"
				if id, ok := ret.Results[0].(*ast.Ident); !ok || id.Name != "nil" {
					val = ".bool " + expr(ret.Results[0])
				}
				for _, tk := range cc.List {
					id, ok := tk.(*ast.Ident)
					if !ok || cmpTokNames[id.Name] == "" {
						no("a comparator case that does not list comparator tokens")
					}
					res += fmt.Sprintf("%s| .%s => %s\n", ind, cmpTokNames[id.Name], val)
				}
			}
			res += ind + "| _ =>\n" + seq(sts[1:], ind+"  ")
			return res
		case *ast.AssignStmt:
			// x, ok := operand.(float64) ; if !ok { return nil, nil }
			if len(x.Lhs) != 2 || len(x.Rhs) != 1 || len(sts) < 2 {
				no("an assignment that is not a checked number assertion")
			}
			ta, ok := x.Rhs[0].(*ast.TypeAssertExpr)
			if !ok {
				no("an assignment that is not a type assertion")
			}
			if id, ok := ta.Type.(*ast.Ident); !ok || id.Name != "float64" {
				no("an assertion to a type other than float64")
			}
			src, ok := ta.X.(*ast.Ident)
			if !ok || (src.Name != left && src.Name != right) {
				no("an assertion on something other than an operand")
			}
			is, ok := sts[1].(*ast.IfStmt)
			if !ok || is.Else != nil || len(is.Body.List) != 1 {
				no("a number assertion not followed by `if !ok { return nil, nil }`")
			}
			if u, ok := is.Cond.(*ast.UnaryExpr); !ok || u.Op != token.NOT {
				no("a number assertion not followed by `if !ok`")
			}
			ret, ok := is.Body.List[0].(*ast.ReturnStmt)
			if !ok || len(ret.Results) != 2 {
				no("a failed number assertion that does not return")
			}
			for _, r := range ret.Results {
				if id, ok := r.(*ast.Ident); !ok || id.Name != "nil" {
					no("a failed number assertion that does not return nil, nil")
				}
			}
			name := x.Lhs[0].(*ast.Ident).Name
			nums[name] = true
			return fmt.Sprintf("%smatch %s with\n%s| .num %s =>\n%s%s| _ => .null\n", ind, leanName(src.Name), ind, leanName(name), seq(sts[2:], ind+"  "), ind)
		}
		no("statement of kind %T in the comparator clause", sts[0])
		return ""
	}
	text := seq(body[start:], "  ")
	return fmt.Sprintf("def compareVals {N : Type} [NumOps N] (op : Cmp) (%s %s : Val N) : Val N :=\n%s\n", leanName(left), leanName(right), text), ""
}

const fallbackComparator = `def compareVals {N : Type} [NumOps N] (op : Cmp) (left right : Val N) : Val N :=
  match op with
  | .eq => .bool (Val.deepEq left right)
  | .ne => .bool (!(Val.deepEq left right))
  | _ =>
    match left with
    | .num leftNum =>
      match right with
      | .num rightNum =>
        match op with
        | .gt => .bool (NumOps.lt rightNum leftNum)
        | .gte => .bool (NumOps.le rightNum leftNum)
        | .lt => .bool (NumOps.lt leftNum rightNum)
        | .lte => .bool (NumOps.le leftNum rightNum)
        | _ =>
          .null
      | _ => .null
    | _ => .null

`

// ---- the pattern translation of `slice` ----

type loopPieces struct{ cond, idx, guard, post string }

func (t *tr) tryLoops(file *ast.File) (out string, why string) {
	defer func() {
		if r := recover(); r != nil {
			if m, ok := r.(refusal); ok {
				out, why = "", string(m)
				return
			}
			panic(r)
		}
	}()
	var fd *ast.FuncDecl
	for _, d := range file.Decls {
		if f, ok := d.(*ast.FuncDecl); ok && f.Name.Name == "slice" && f.Recv == nil {
			fd = f
		}
	}
	no := func(format string, a ...interface{}) { panic(refusal(fmt.Sprintf(format, a...))) }
	if fd == nil {
		no("function slice not found")
	}
	t.cur = &fn{name: "slice"}
	t.soft = true
	defer func() { t.soft = false }()
	ps := fd.Type.Params.List
	var names []string
	for _, p := range ps {
		for _, n := range p.Names {
			names = append(names, n.Name)
		}
	}
	if len(names) != 2 {
		no("slice: expected two parameters")
	}
	sName, pName := names[0], names[1]
	st := fd.Body.List
	if len(st) != 6 {
		no("slice: expected six statements, found %d", len(st))
	}
	ident := func(e ast.Expr) string {
		id, ok := e.(*ast.Ident)
		if !ok {
			no("slice: expected an identifier")
		}
		return id.Name
	}
	// 1. c, err := computeSliceParams(len(s), parts)
	a1, ok := st[0].(*ast.AssignStmt)
	if !ok || a1.Tok != token.DEFINE || len(a1.Lhs) != 2 || len(a1.Rhs) != 1 {
		no("slice: statement 1 is not `c, err := computeSliceParams(len(s), parts)`")
	}
	cName, errName := ident(a1.Lhs[0]), ident(a1.Lhs[1])
	call, ok := a1.Rhs[0].(*ast.CallExpr)
	if !ok || len(call.Args) != 2 {
		no("slice: statement 1 is not a call of computeSliceParams")
	}
	if id, ok := call.Fun.(*ast.Ident); !ok || id.Name != "computeSliceParams" {
		no("slice: statement 1 does not call computeSliceParams")
	}
	lenCall, ok := call.Args[0].(*ast.CallExpr)
	if !ok || len(lenCall.Args) != 1 || ident(lenCall.Fun) != "len" || ident(lenCall.Args[0]) != sName || ident(call.Args[1]) != pName {
		no("slice: computeSliceParams is not called with (len(%s), %s)", sName, pName)
	}
	// 2. if err != nil { return nil, err }
	i2, ok := st[1].(*ast.IfStmt)
	if !ok || i2.Init != nil || i2.Else != nil || len(i2.Body.List) != 1 {
		no("slice: statement 2 is not `if err != nil { return nil, err }`")
	}
	be, ok := i2.Cond.(*ast.BinaryExpr)
	if !ok || be.Op != token.NEQ || ident(be.X) != errName || ident(be.Y) != "nil" {
		no("slice: statement 2 does not test err != nil")
	}
	r2, ok := i2.Body.List[0].(*ast.ReturnStmt)
	if !ok || len(r2.Results) != 2 || ident(r2.Results[0]) != "nil" || ident(r2.Results[1]) != errName {
		no("slice: statement 2 does not return nil, err")
	}
	// 3. a, b, st := c[0], c[1], c[2]
	a3, ok := st[2].(*ast.AssignStmt)
	if !ok || a3.Tok != token.DEFINE || len(a3.Lhs) != 3 || len(a3.Rhs) != 3 {
		no("slice: statement 3 is not `start, stop, step := c[0], c[1], c[2]`")
	}
	var v3 [3]string
	for k := 0; k < 3; k++ {
		v3[k] = ident(a3.Lhs[k])
		ix, ok := a3.Rhs[k].(*ast.IndexExpr)
		if !ok || ident(ix.X) != cName {
			no("slice: statement 3 does not index %s", cName)
		}
		lit, ok := ix.Index.(*ast.BasicLit)
		if !ok || lit.Value != strconv.Itoa(k) {
			no("slice: statement 3 does not read %s[%d] into its %dth variable", cName, k, k+1)
		}
	}
	// 4. r := []interface{}{}
	a4, ok := st[3].(*ast.AssignStmt)
	if !ok || a4.Tok != token.DEFINE || len(a4.Lhs) != 1 || len(a4.Rhs) != 1 {
		no("slice: statement 4 is not `result := []interface{}{}`")
	}
	rName := ident(a4.Lhs[0])
	if cl, ok := a4.Rhs[0].(*ast.CompositeLit); !ok || len(cl.Elts) != 0 {
		no("slice: the result does not start as an empty literal")
	}
	// 6. return r, nil
	r6, ok := st[5].(*ast.ReturnStmt)
	if !ok || len(r6.Results) != 2 || ident(r6.Results[0]) != rName || ident(r6.Results[1]) != "nil" {
		no("slice: the last statement is not `return %s, nil`", rName)
	}
	// 5. if <test> { loop } else { loop }
	i5, ok := st[4].(*ast.IfStmt)
	if !ok || i5.Init != nil {
		no("slice: statement 5 is not an if")
	}
	eb, ok := i5.Else.(*ast.BlockStmt)
	if !ok {
		no("slice: statement 5 has no else block")
	}
	env := map[string]kind{v3[0]: kInt, v3[1]: kInt, v3[2]: kInt}
	test, tk := t.expr(i5.Cond, env)
	if tk != kBool {
		no("slice: the test of statement 5 is not boolean")
	}
	loop := func(b *ast.BlockStmt) loopPieces {
		if len(b.List) != 1 {
			no("slice: a branch of statement 5 is not a single for loop")
		}
		f, ok := b.List[0].(*ast.ForStmt)
		if !ok || f.Init == nil || f.Cond == nil || f.Post == nil {
			no("slice: a branch of statement 5 is not a three-clause for loop")
		}
		in, ok := f.Init.(*ast.AssignStmt)
		if !ok || in.Tok != token.DEFINE || len(in.Lhs) != 1 || len(in.Rhs) != 1 || ident(in.Rhs[0]) != v3[0] {
			no("slice: the loop does not start with `i := %s`", v3[0])
		}
		iName := ident(in.Lhs[0])
		lenv := copyEnv(env)
		lenv[iName] = kInt
		cond, ck := t.expr(f.Cond, lenv)
		if ck != kBool {
			no("slice: loop condition is not boolean")
		}
		po, ok := f.Post.(*ast.AssignStmt)
		if !ok || len(po.Lhs) != 1 || len(po.Rhs) != 1 || ident(po.Lhs[0]) != iName {
			no("slice: the post statement does not assign the loop variable")
		}
		rhs, rk := t.expr(po.Rhs[0], lenv)
		if rk != kInt {
			no("slice: the post statement is not an integer assignment")
		}
		var post string
		switch po.Tok {
		case token.ASSIGN:
			post = rhs
		case token.ADD_ASSIGN:
			post = fmt.Sprintf("(wrap64 (%s + %s))", leanName(iName), rhs)
		case token.SUB_ASSIGN:
			post = fmt.Sprintf("(wrap64 (%s - %s))", leanName(iName), rhs)
		default:
			no("slice: post statement operator %s", po.Tok)
		}
		if len(f.Body.List) != 2 {
			no("slice: the loop body is not `append; if guard { break }`")
		}
		ap, ok := f.Body.List[0].(*ast.AssignStmt)
		if !ok || ap.Tok != token.ASSIGN || len(ap.Lhs) != 1 || len(ap.Rhs) != 1 || ident(ap.Lhs[0]) != rName {
			no("slice: the loop body does not start with `%s = append(%s, …)`", rName, rName)
		}
		ac, ok := ap.Rhs[0].(*ast.CallExpr)
		if !ok || ident(ac.Fun) != "append" || len(ac.Args) != 2 || ident(ac.Args[0]) != rName || ac.Ellipsis != token.NoPos {
			no("slice: the loop body does not append one element to %s", rName)
		}
		ix, ok := ac.Args[1].(*ast.IndexExpr)
		if !ok || ident(ix.X) != sName {
			no("slice: the appended element is not %s[…]", sName)
		}
		idx, ik := t.expr(ix.Index, lenv)
		if ik != kInt {
			no("slice: the subscript is not an integer")
		}
		gi, ok := f.Body.List[1].(*ast.IfStmt)
		if !ok || gi.Init != nil || gi.Else != nil || len(gi.Body.List) != 1 {
			no("slice: the loop body does not end with `if guard { break }`")
		}
		if br, ok := gi.Body.List[0].(*ast.BranchStmt); !ok || br.Tok != token.BREAK || br.Label != nil {
			no("slice: the guarded statement is not a plain break")
		}
		guard, gk := t.expr(gi.Cond, lenv)
		if gk != kBool {
			no("slice: the guard is not boolean")
		}
		// the loop variable is called i in the output
		ren := func(x string) string { return x }
		if iName != "i" {
			if _, clash := env["i"]; clash {
				no("slice: a variable named i other than the loop variable")
			}
			no("slice: the loop variable is not named i") // keep the output canonical; renaming is not implemented
		}
		return loopPieces{ren(cond), ren(idx), ren(guard), ren(post)}
	}
	l1, l2 := loop(i5.Body), loop(eb)
	a, b, c := leanName(v3[0]), leanName(v3[1]), leanName(v3[2])
	var sb strings.Builder
	for k, lp := range []loopPieces{l1, l2} {
		fmt.Fprintf(&sb, "def sliceLoop%d {α : Type} (xs : List α) (%s %s %s : Int) : Nat → Int → Res (List α)\n", k+1, a, b, c)
		fmt.Fprintf(&sb, "  | 0, i => if %s = true then Slice.hang else .ok []\n", lp.cond)
		fmt.Fprintf(&sb, "  | fuel + 1, i =>\n    if %s = true then\n      match Slice.getIdx xs %s with\n      | none => Slice.idxPanic\n      | some x =>\n", lp.cond, lp.idx)
		fmt.Fprintf(&sb, "        if %s = true then .ok [x]\n        else\n          let i := %s\n", lp.guard, lp.post)
		fmt.Fprintf(&sb, "          match sliceLoop%d xs %s %s %s fuel i with\n          | .ok r => .ok (x :: r)\n          | e => e\n    else .ok []\n\n", k+1, a, b, c)
	}
	fmt.Fprintf(&sb, "def slice {α : Type} (fuel : Nat) (xs : List α) (parts : List SliceParam) : Res (List α) :=\n")
	fmt.Fprintf(&sb, "  match computeSliceParams (xs.length : Int) parts with\n  | .error msg => .err (.other msg)\n  | .ok computed =>\n")
	fmt.Fprintf(&sb, "    match computed[0]?, computed[1]?, computed[2]? with\n    | some %s, some %s, some %s =>\n", a, b, c)
	fmt.Fprintf(&sb, "      if %s = true then sliceLoop1 xs %s %s %s fuel %s\n      else sliceLoop2 xs %s %s %s fuel %s\n", test, a, b, c, a, a, b, c, a)
	fmt.Fprintf(&sb, "    | _, _, _ => .panic \"util.go: computed[k] index out of range\"\n\n")
	return sb.String(), ""
}

const fallbackLoops = `def sliceLoop1 {α : Type} (xs : List α) (start stop step : Int) : Nat → Int → Res (List α) :=
  fun fuel i => Slice.loopUp xs stop step fuel i

def sliceLoop2 {α : Type} (xs : List α) (start stop step : Int) : Nat → Int → Res (List α) :=
  fun fuel i => Slice.loopDown xs stop step fuel i

def slice {α : Type} (fuel : Nat) (xs : List α) (parts : List SliceParam) : Res (List α) :=
  match computeSliceParams (xs.length : Int) parts with
  | .error msg => .err (.other msg)
  | .ok computed =>
    match computed[0]?, computed[1]?, computed[2]? with
    | some start, some stop, some step =>
      if (decide (step > (0 : Int))) = true then sliceLoop1 xs start stop step fuel start
      else sliceLoop2 xs start stop step fuel start
    | _, _, _ => .panic "util.go: computed[k] index out of range"

`

func mustUnquote(s string) string {
	u, err := strconv.Unquote(s)
	if err != nil {
		return s
	}
	return u
}

func main() {
	if len(os.Args) != 3 {
		fmt.Fprintln(os.Stderr, "usage: gotolean <repo-dir> <output.lean>")
		os.Exit(2)
	}
	dir, outPath := os.Args[1], os.Args[2]
	fset := token.NewFileSet()
	file, err := parser.ParseFile(fset, filepath.Join(dir, "util.go"), nil, 0)
	if err != nil {
		die("util.go", "%v", err)
	}
	t := &tr{fns: map[string]*fn{}, fields: map[string]kind{}}
	softMode = &t.soft
	want := []string{"capSlice", "computeSliceParams"}
	foundStruct := false
	for _, d := range file.Decls {
		switch x := d.(type) {
		case *ast.GenDecl:
			for _, sp := range x.Specs {
				ts, ok := sp.(*ast.TypeSpec)
				if !ok || ts.Name.Name != "sliceParam" {
					continue
				}
				st, ok := ts.Type.(*ast.StructType)
				if !ok {
					die("sliceParam", "not a struct")
				}
				foundStruct = true
				for _, f := range st.Fields.List {
					k := t.typeKind(f.Type, "sliceParam")
					if k != kInt && k != kBool {
						die("sliceParam", "field type outside the subset")
					}
					for _, n := range f.Names {
						t.fields[n.Name] = k
					}
				}
			}
		case *ast.FuncDecl:
			for _, w := range want {
				if x.Name.Name == w && x.Recv == nil {
					if t.fns[w] != nil {
						die(w, "declared twice")
					}
					f := &fn{name: w, decl: x}
					for _, p := range x.Type.Params.List {
						k := t.typeKind(p.Type, w)
						for _, n := range p.Names {
							f.params = append(f.params, n.Name)
							f.pkinds = append(f.pkinds, k)
						}
					}
					if x.Type.Results == nil {
						die(w, "no result")
					}
					for _, r := range x.Type.Results.List {
						if len(r.Names) != 0 {
							die(w, "named results")
						}
						f.results = append(f.results, t.typeKind(r.Type, w))
					}
					ok := (len(f.results) == 1 && (f.results[0] == kInt || f.results[0] == kBool)) ||
						(len(f.results) == 2 && f.results[0] == kIntList && f.results[1] == kErr)
					if !ok {
						die(w, "result list outside the subset")
					}
					t.fns[w] = f
				}
			}
		}
	}
	if !foundStruct {
		die("sliceParam", "type not found in util.go")
	}
	for _, w := range want {
		if t.fns[w] == nil {
			die(w, "function not found in util.go")
		}
	}
	if t.fields["N"] != kInt || t.fields["Specified"] != kBool || len(t.fields) != 2 {
		die("sliceParam", "expected exactly the fields N int and Specified bool")
	}

	var b strings.Builder
	b.WriteString("-- GENERATED by /verif/tools/gotolean from util.go of /repo (working tree). Do not edit.\n")
	b.WriteString("import Jmes.Slice\nimport Jmes.Value\nimport Jmes.Ast\nnamespace Jmes.GenSlice\nopen Jmes.Slice (wrap64)\n\n")
	b.WriteString("/-- `true`: the definitions below are the translation of the Go source; `false`: the translator\n    refused the source and they are aliases of the hand-written model. -/\ndef translated : Bool := true\n\n")
	b.WriteString("structure SliceParam where\n  N : Int\n  Specified : Bool\n  deriving Inhabited, Repr, DecidableEq\n\n")
	for _, w := range want {
		f := t.fns[w]
		t.cur = f
		env := map[string]kind{}
		var ps []string
		for i, p := range f.params {
			env[p] = f.pkinds[i]
			ty := map[kind]string{kInt: "Int", kBool: "Bool", kParams: "List SliceParam"}[f.pkinds[i]]
			if ty == "" {
				die(w, "parameter type outside the subset")
			}
			ps = append(ps, fmt.Sprintf("(%s : %s)", leanName(p), ty))
		}
		rt := "Int"
		if len(f.results) == 2 {
			rt = "Except String (List Int)"
		} else if f.results[0] == kBool {
			rt = "Bool"
		}
		fmt.Fprintf(&b, "def %s %s : %s :=\n", leanName(w), strings.Join(ps, " "), rt)
		b.WriteString(t.stmts(f.decl.Body.List, nil, env, "  "))
		b.WriteString("\n")
	}
	loops, why := t.tryLoops(file)
	if loops == "" {
		fmt.Fprintf(&b, "/-- the loops of `slice` were not in the shape the translator reads (%s): hand-written loops -/\ndef loopsTranslated : Bool := false\n\n", strings.Replace(why, "-/", "- /", -1))
		b.WriteString(fallbackLoops)
		fmt.Fprintf(os.Stderr, "gotolean: loops of slice not translated: %s\n", why)
	} else {
		b.WriteString("/-- the two loops of `slice` below are the pattern translation of the Go source -/\ndef loopsTranslated : Bool := true\n\n")
		b.WriteString(loops)
	}
	isf, why3 := t.tryIsFalse(file)
	if isf == "" {
		fmt.Fprintf(&b, "/-- isFalse was not in the shape the translator reads (%s): the model's -/\ndef isFalseTranslated : Bool := false\n\n", strings.Replace(why3, "-/", "- /", -1))
		b.WriteString(fallbackIsFalse)
		fmt.Fprintf(os.Stderr, "gotolean: isFalse not translated: %s\n", why3)
	} else {
		b.WriteString("/-- util.go `isFalse` on decoded JSON: the clauses of its type switch, translated -/\ndef isFalseTranslated : Bool := true\n\n")
		b.WriteString(isf)
	}
	idx, why2 := t.tryIndex(dir)
	if idx == "" {
		fmt.Fprintf(&b, "/-- the index clause of Execute was not in the shape the translator reads (%s): hand-written -/\ndef indexTranslated : Bool := false\n\n", strings.Replace(why2, "-/", "- /", -1))
		b.WriteString(fallbackIndex)
		fmt.Fprintf(os.Stderr, "gotolean: index clause not translated: %s\n", why2)
	} else {
		b.WriteString("/-- interpreter.go, `case ASTIndex:` on a `[]interface{}` of length `length`: the selected position, `none` = null -/\ndef indexTranslated : Bool := true\n\n")
		b.WriteString(idx)
	}
	cmpText, why4 := t.tryComparator(dir)
	if cmpText == "" {
		fmt.Fprintf(&b, "/-- the comparator clause of Execute was not in the shape the translator reads (%s): hand-written -/\ndef comparatorTranslated : Bool := false\n\n", strings.Replace(why4, "-/", "- /", -1))
		b.WriteString(fallbackComparator)
		fmt.Fprintf(os.Stderr, "gotolean: comparator clause not translated: %s\n", why4)
	} else {
		b.WriteString("/-- interpreter.go, `case ASTComparator:` after the operands are evaluated: the statements in order -/\ndef comparatorTranslated : Bool := true\n\n")
		b.WriteString(cmpText)
	}
	b.WriteString("end Jmes.GenSlice\n")
	if err := ioutil.WriteFile(outPath, []byte(b.String()), 0o644); err != nil {
		fmt.Fprintf(os.Stderr, "gotolean: cannot write %s: %v\n", outPath, err)
		os.Exit(1)
	}
}
