// Command gotolean translates the integer functions of util.go (capSlice and
// computeSliceParams: the whole arithmetic of a slice expression) from Go source
// into Lean 4 definitions.  usage: gotolean <repo-dir> <output.lean>
//
// It is a translator for a small, explicitly listed subset of Go; anything outside the
// subset is refused (`gotolean: cannot translate <what>: <why>`, exit status 3, no output
// file), never guessed.  /verif/check then falls back to the hand-written model of these
// two functions (Jmes/Slice.lean), which stays tied to the code by the exhaustive slice
// window of the correspondence harness; the evidence file records which tie was in force.
//
// Subset (statements): `var a, b T` (zero values), `x := e`, `x = e`, `x += e`, `x -= e`,
// `if c { … } else if … else { … }` (no init statement), `return e…`.
// Subset (expressions): identifiers, integer literals, `true`/`false`, `nil`, unary `-` `!`,
// binary `+ - *` (64-bit wrap-around: `wrap64`), comparisons, `&&`, `||`, calls of functions
// translated in the same run, `p[k].F` for a parameter `p []sliceParam`, a constant `k` and a
// field `F` of sliceParam, `[]int{…}`, `errors.New("…")`.
//
// Semantics of the translation: Go's `int` is Lean's `Int` with every `+ - *` wrapped to 64
// bits; assignment is shadowing (`let x := …`); an `if` statement is translated in
// continuation-passing style (the statements after it are repeated at the end of each branch
// that falls through), so early returns need no encoding; a result list `(T, error)` becomes
// `Except String T`; `p[k]` on the slice parameter is `p.getD k default` — Go would panic for
// `k ≥ len(p)`, and the tie theorem is stated for the three-element lists the only caller
// builds (interpreter.go, ASTSlice: `make([]sliceParam, 3)`).
package main

import (
	"fmt"
	"go/ast"
	"go/parser"
	"go/token"
	"io/ioutil"
	"os"
	"path/filepath"
	"strconv"
	"strings"
)

func die(what, format string, a ...interface{}) {
	fmt.Fprintf(os.Stderr, "gotolean: cannot translate %s: %s\n", what, fmt.Sprintf(format, a...))
	os.Exit(3)
}

type kind int

const (
	kInt kind = iota
	kBool
	kParams // []sliceParam
	kIntList
	kErr
)

type fn struct {
	name    string
	decl    *ast.FuncDecl
	params  []string
	pkinds  []kind
	results []kind // kInt | kIntList,kErr
}

type tr struct {
	fns    map[string]*fn
	fields map[string]kind // fields of sliceParam
	cur    *fn
}

func (t *tr) typeKind(e ast.Expr, what string) kind {
	switch x := e.(type) {
	case *ast.Ident:
		switch x.Name {
		case "int":
			return kInt
		case "bool":
			return kBool
		case "error":
			return kErr
		}
	case *ast.ArrayType:
		if x.Len == nil {
			if id, ok := x.Elt.(*ast.Ident); ok {
				if id.Name == "sliceParam" {
					return kParams
				}
				if id.Name == "int" {
					return kIntList
				}
			}
		}
	}
	die(what, "type outside the subset")
	return kInt
}

func leanName(s string) string {
	switch s {
	case "end", "then", "from", "at", "open", "fun", "do", "in", "let", "have", "show", "match", "with", "where", "if", "else", "Type", "by":
		return s + "'"
	}
	return s
}

// expr translates an expression; env maps Go variable names to kinds.
func (t *tr) expr(e ast.Expr, env map[string]kind) (string, kind) {
	what := t.cur.name
	switch x := e.(type) {
	case *ast.ParenExpr:
		return t.expr(x.X, env)
	case *ast.BasicLit:
		if x.Kind != token.INT {
			die(what, "literal %s", x.Value)
		}
		v, err := strconv.ParseInt(x.Value, 0, 64)
		if err != nil {
			die(what, "integer literal %s", x.Value)
		}
		return fmt.Sprintf("(%d : Int)", v), kInt
	case *ast.Ident:
		switch x.Name {
		case "true", "false":
			return x.Name, kBool
		}
		k, ok := env[x.Name]
		if !ok {
			die(what, "identifier %s is not a local variable or parameter", x.Name)
		}
		return leanName(x.Name), k
	case *ast.UnaryExpr:
		s, k := t.expr(x.X, env)
		switch x.Op {
		case token.SUB:
			if k != kInt {
				die(what, "unary - on a non-integer")
			}
			if lit, isLit := x.X.(*ast.BasicLit); isLit {
				return "(-" + lit.Value + " : Int)", kInt
			}
			return "(wrap64 (-" + s + "))", kInt
		case token.NOT:
			if k != kBool {
				die(what, "! on a non-boolean")
			}
			return "(!" + s + ")", kBool
		}
		die(what, "unary operator %s", x.Op)
	case *ast.BinaryExpr:
		l, lk := t.expr(x.X, env)
		r, rk := t.expr(x.Y, env)
		switch x.Op {
		case token.ADD, token.SUB, token.MUL:
			if lk != kInt || rk != kInt {
				die(what, "arithmetic on non-integers")
			}
			return fmt.Sprintf("(wrap64 (%s %s %s))", l, x.Op, r), kInt
		case token.LSS, token.LEQ, token.GTR, token.GEQ:
			if lk != kInt || rk != kInt {
				die(what, "ordering on non-integers")
			}
			op := map[token.Token]string{token.LSS: "<", token.LEQ: "≤", token.GTR: ">", token.GEQ: "≥"}[x.Op]
			return fmt.Sprintf("(decide (%s %s %s))", l, op, r), kBool
		case token.EQL, token.NEQ:
			if lk != rk || (lk != kInt && lk != kBool) {
				die(what, "== on operands outside the subset")
			}
			if x.Op == token.EQL {
				return fmt.Sprintf("(%s == %s)", l, r), kBool
			}
			return fmt.Sprintf("(%s != %s)", l, r), kBool
		case token.LAND, token.LOR:
			if lk != kBool || rk != kBool {
				die(what, "logical operator on non-booleans")
			}
			op := "&&"
			if x.Op == token.LOR {
				op = "||"
			}
			return fmt.Sprintf("(%s %s %s)", l, op, r), kBool
		}
		die(what, "binary operator %s", x.Op)
	case *ast.SelectorExpr:
		// p[k].F
		ix, ok := x.X.(*ast.IndexExpr)
		if !ok {
			die(what, "selector .%s on something that is not p[k]", x.Sel.Name)
		}
		id, ok := ix.X.(*ast.Ident)
		if !ok || env[id.Name] != kParams {
			die(what, "indexing something that is not the []sliceParam parameter")
		}
		lit, ok := ix.Index.(*ast.BasicLit)
		if !ok || lit.Kind != token.INT {
			die(what, "non-constant subscript of %s", id.Name)
		}
		fk, ok := t.fields[x.Sel.Name]
		if !ok {
			die(what, "sliceParam has no field %s", x.Sel.Name)
		}
		return fmt.Sprintf("(%s.getD %s default).%s", leanName(id.Name), lit.Value, x.Sel.Name), fk
	case *ast.CallExpr:
		id, ok := x.Fun.(*ast.Ident)
		if !ok {
			die(what, "call of something that is not a plain function")
		}
		f, ok := t.fns[id.Name]
		if !ok || len(f.results) != 1 {
			die(what, "call of %s (only single-result functions translated in this run may be called)", id.Name)
		}
		if len(x.Args) != len(f.params) {
			die(what, "call of %s: argument count", id.Name)
		}
		parts := []string{leanName(f.name)}
		for i, a := range x.Args {
			s, k := t.expr(a, env)
			if k != f.pkinds[i] {
				die(what, "call of %s: argument %d has the wrong type", id.Name, i)
			}
			parts = append(parts, s)
		}
		return "(" + strings.Join(parts, " ") + ")", f.results[0]
	}
	die(what, "expression of kind %T", e)
	return "", kInt
}

func copyEnv(env map[string]kind) map[string]kind {
	n := map[string]kind{}
	for k, v := range env {
		n[k] = v
	}
	return n
}

// stmts translates a statement list followed by the continuation `rest` (further statement
// lists, innermost first).  Every path must end in a return.
func (t *tr) stmts(list []ast.Stmt, rest [][]ast.Stmt, env map[string]kind, ind string) string {
	what := t.cur.name
	if len(list) == 0 {
		if len(rest) == 0 {
			die(what, "a path reaches the end of the function without a return")
		}
		return t.stmts(rest[0], rest[1:], env, ind)
	}
	s, tail := list[0], list[1:]
	switch x := s.(type) {
	case *ast.DeclStmt:
		gd, ok := x.Decl.(*ast.GenDecl)
		if !ok || gd.Tok != token.VAR {
			die(what, "declaration other than var")
		}
		out := ""
		env = copyEnv(env)
		for _, sp := range gd.Specs {
			vs := sp.(*ast.ValueSpec)
			if len(vs.Values) != 0 || vs.Type == nil {
				die(what, "var with initialiser (use :=)")
			}
			k := t.typeKind(vs.Type, what)
			zero := map[kind]string{kInt: "(0 : Int)", kBool: "false"}[k]
			if zero == "" {
				die(what, "var of a type without a zero value in the subset")
			}
			for _, n := range vs.Names {
				out += fmt.Sprintf("%slet %s := %s\n", ind, leanName(n.Name), zero)
				env[n.Name] = k
			}
		}
		return out + t.stmts(tail, rest, env, ind)
	case *ast.AssignStmt:
		if len(x.Lhs) != 1 || len(x.Rhs) != 1 {
			die(what, "multiple assignment")
		}
		id, ok := x.Lhs[0].(*ast.Ident)
		if !ok {
			die(what, "assignment to something that is not a variable")
		}
		rhs, k := t.expr(x.Rhs[0], env)
		env = copyEnv(env)
		switch x.Tok {
		case token.DEFINE:
			env[id.Name] = k
		case token.ASSIGN:
			if k0, known := env[id.Name]; !known || k0 != k {
				die(what, "assignment to %s: undeclared or of another type", id.Name)
			}
		case token.ADD_ASSIGN, token.SUB_ASSIGN:
			if env[id.Name] != kInt || k != kInt {
				die(what, "%s on non-integers", x.Tok)
			}
			op := "+"
			if x.Tok == token.SUB_ASSIGN {
				op = "-"
			}
			rhs = fmt.Sprintf("(wrap64 (%s %s %s))", leanName(id.Name), op, rhs)
		default:
			die(what, "assignment operator %s", x.Tok)
		}
		if _, known := env[id.Name]; !known {
			die(what, "assignment to undeclared %s", id.Name)
		}
		return fmt.Sprintf("%slet %s := %s\n", ind, leanName(id.Name), rhs) + t.stmts(tail, rest, env, ind)
	case *ast.IfStmt:
		if x.Init != nil {
			die(what, "if with an init statement")
		}
		c, k := t.expr(x.Cond, env)
		if k != kBool {
			die(what, "if condition is not boolean")
		}
		cont := append([][]ast.Stmt{tail}, rest...)
		out := fmt.Sprintf("%sif %s = true then\n", ind, c)
		out += t.stmts(x.Body.List, cont, env, ind+"  ")
		out += ind + "else\n"
		switch e := x.Else.(type) {
		case nil:
			out += t.stmts(nil, cont, env, ind+"  ")
		case *ast.BlockStmt:
			out += t.stmts(e.List, cont, env, ind+"  ")
		case *ast.IfStmt:
			out += t.stmts([]ast.Stmt{e}, cont, env, ind+"  ")
		default:
			die(what, "else branch of kind %T", e)
		}
		return out
	case *ast.BlockStmt:
		return t.stmts(x.List, append([][]ast.Stmt{tail}, rest...), env, ind)
	case *ast.ReturnStmt:
		res := t.cur.results
		if len(x.Results) != len(res) {
			die(what, "return with %d values", len(x.Results))
		}
		if len(res) == 1 {
			v, k := t.expr(x.Results[0], env)
			if k != res[0] {
				die(what, "return value of the wrong type")
			}
			return ind + v + "\n"
		}
		// (list, error)
		isNil := func(e ast.Expr) bool { id, ok := e.(*ast.Ident); return ok && id.Name == "nil" }
		if isNil(x.Results[1]) {
			cl, ok := x.Results[0].(*ast.CompositeLit)
			if !ok || t.typeKind(cl.Type, what) != kIntList {
				die(what, "first result of a successful return is not a []int literal")
			}
			var els []string
			for _, el := range cl.Elts {
				v, k := t.expr(el, env)
				if k != kInt {
					die(what, "[]int literal with a non-integer element")
				}
				els = append(els, v)
			}
			return ind + ".ok [" + strings.Join(els, ", ") + "]\n"
		}
		if !isNil(x.Results[0]) {
			die(what, "return with both a value and an error")
		}
		call, ok := x.Results[1].(*ast.CallExpr)
		if ok {
			if sel, ok2 := call.Fun.(*ast.SelectorExpr); ok2 && len(call.Args) == 1 {
				if pk, ok3 := sel.X.(*ast.Ident); ok3 && pk.Name == "errors" && sel.Sel.Name == "New" {
					if lit, ok4 := call.Args[0].(*ast.BasicLit); ok4 && lit.Kind == token.STRING {
						return ind + ".error " + strconv.Quote(mustUnquote(lit.Value)) + "\n"
					}
				}
			}
		}
		die(what, "error result is not errors.New(\"…\")")
	}
	die(what, "statement of kind %T", s)
	return ""
}

func mustUnquote(s string) string {
	u, err := strconv.Unquote(s)
	if err != nil {
		return s
	}
	return u
}

func main() {
	if len(os.Args) != 3 {
		fmt.Fprintln(os.Stderr, "usage: gotolean <repo-dir> <output.lean>")
		os.Exit(2)
	}
	dir, outPath := os.Args[1], os.Args[2]
	fset := token.NewFileSet()
	file, err := parser.ParseFile(fset, filepath.Join(dir, "util.go"), nil, 0)
	if err != nil {
		die("util.go", "%v", err)
	}
	t := &tr{fns: map[string]*fn{}, fields: map[string]kind{}}
	want := []string{"capSlice", "computeSliceParams"}
	foundStruct := false
	for _, d := range file.Decls {
		switch x := d.(type) {
		case *ast.GenDecl:
			for _, sp := range x.Specs {
				ts, ok := sp.(*ast.TypeSpec)
				if !ok || ts.Name.Name != "sliceParam" {
					continue
				}
				st, ok := ts.Type.(*ast.StructType)
				if !ok {
					die("sliceParam", "not a struct")
				}
				foundStruct = true
				for _, f := range st.Fields.List {
					k := t.typeKind(f.Type, "sliceParam")
					if k != kInt && k != kBool {
						die("sliceParam", "field type outside the subset")
					}
					for _, n := range f.Names {
						t.fields[n.Name] = k
					}
				}
			}
		case *ast.FuncDecl:
			for _, w := range want {
				if x.Name.Name == w && x.Recv == nil {
					if t.fns[w] != nil {
						die(w, "declared twice")
					}
					f := &fn{name: w, decl: x}
					for _, p := range x.Type.Params.List {
						k := t.typeKind(p.Type, w)
						for _, n := range p.Names {
							f.params = append(f.params, n.Name)
							f.pkinds = append(f.pkinds, k)
						}
					}
					if x.Type.Results == nil {
						die(w, "no result")
					}
					for _, r := range x.Type.Results.List {
						if len(r.Names) != 0 {
							die(w, "named results")
						}
						f.results = append(f.results, t.typeKind(r.Type, w))
					}
					ok := (len(f.results) == 1 && (f.results[0] == kInt || f.results[0] == kBool)) ||
						(len(f.results) == 2 && f.results[0] == kIntList && f.results[1] == kErr)
					if !ok {
						die(w, "result list outside the subset")
					}
					t.fns[w] = f
				}
			}
		}
	}
	if !foundStruct {
		die("sliceParam", "type not found in util.go")
	}
	for _, w := range want {
		if t.fns[w] == nil {
			die(w, "function not found in util.go")
		}
	}
	if t.fields["N"] != kInt || t.fields["Specified"] != kBool || len(t.fields) != 2 {
		die("sliceParam", "expected exactly the fields N int and Specified bool")
	}

	var b strings.Builder
	b.WriteString("-- GENERATED by /verif/tools/gotolean from util.go of /repo (working tree). Do not edit.\n")
	b.WriteString("import Jmes.Slice\nnamespace Jmes.GenSlice\nopen Jmes.Slice (wrap64)\n\n")
	b.WriteString("/-- `true`: the definitions below are the translation of the Go source; `false`: the translator\n    refused the source and they are aliases of the hand-written model. -/\ndef translated : Bool := true\n\n")
	b.WriteString("structure SliceParam where\n  N : Int\n  Specified : Bool\n  deriving Inhabited, Repr, DecidableEq\n\n")
	for _, w := range want {
		f := t.fns[w]
		t.cur = f
		env := map[string]kind{}
		var ps []string
		for i, p := range f.params {
			env[p] = f.pkinds[i]
			ty := map[kind]string{kInt: "Int", kBool: "Bool", kParams: "List SliceParam"}[f.pkinds[i]]
			if ty == "" {
				die(w, "parameter type outside the subset")
			}
			ps = append(ps, fmt.Sprintf("(%s : %s)", leanName(p), ty))
		}
		rt := "Int"
		if len(f.results) == 2 {
			rt = "Except String (List Int)"
		} else if f.results[0] == kBool {
			rt = "Bool"
		}
		fmt.Fprintf(&b, "def %s %s : %s :=\n", leanName(w), strings.Join(ps, " "), rt)
		b.WriteString(t.stmts(f.decl.Body.List, nil, env, "  "))
		b.WriteString("\n")
	}
	b.WriteString("end Jmes.GenSlice\n")
	if err := ioutil.WriteFile(outPath, []byte(b.String()), 0o644); err != nil {
		fmt.Fprintf(os.Stderr, "gotolean: cannot write %s: %v\n", outPath, err)
		os.Exit(1)
	}
}
