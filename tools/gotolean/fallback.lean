-- FALLBACK copy (tools/gotolean refused the current util.go): the translation of the pinned util.go, kept so that the project builds; `translated = false` says the tie is by correspondence only.
import Jmes.Slice
namespace Jmes.GenSlice
open Jmes.Slice (wrap64)

/-- `true`: the definitions below are the translation of the Go source; `false`: the translator
    refused the source and they are aliases of the hand-written model. -/
def translated : Bool := false

structure SliceParam where
  N : Int
  Specified : Bool
  deriving Inhabited, Repr, DecidableEq

def capSlice (length : Int) (actual : Int) (step : Int) : Int :=
  if (decide (actual < (0 : Int))) = true then
    let actual := (wrap64 (actual + length))
    if (decide (actual < (0 : Int))) = true then
      if (decide (step < (0 : Int))) = true then
        let actual := (-1 : Int)
        actual
      else
        let actual := (0 : Int)
        actual
    else
      actual
  else
    if (decide (actual ≥ length)) = true then
      if (decide (step < (0 : Int))) = true then
        let actual := (wrap64 (length - (1 : Int)))
        actual
      else
        let actual := length
        actual
    else
      actual

def computeSliceParams (length : Int) (parts : List SliceParam) : Except String (List Int) :=
  let start := (0 : Int)
  let stop := (0 : Int)
  let step := (0 : Int)
  if (!(parts.getD 2 default).Specified) = true then
    let step := (1 : Int)
    let stepValueNegative := false
    if (decide (step < (0 : Int))) = true then
      let stepValueNegative := true
      if (!(parts.getD 0 default).Specified) = true then
        if stepValueNegative = true then
          let start := (wrap64 (length - (1 : Int)))
          if (!(parts.getD 1 default).Specified) = true then
            if stepValueNegative = true then
              let stop := (-1 : Int)
              .ok [start, stop, step]
            else
              let stop := length
              .ok [start, stop, step]
          else
            let stop := (capSlice length (parts.getD 1 default).N step)
            .ok [start, stop, step]
        else
          let start := (0 : Int)
          if (!(parts.getD 1 default).Specified) = true then
            if stepValueNegative = true then
              let stop := (-1 : Int)
              .ok [start, stop, step]
            else
              let stop := length
              .ok [start, stop, step]
          else
            let stop := (capSlice length (parts.getD 1 default).N step)
            .ok [start, stop, step]
      else
        let start := (capSlice length (parts.getD 0 default).N step)
        if (!(parts.getD 1 default).Specified) = true then
          if stepValueNegative = true then
            let stop := (-1 : Int)
            .ok [start, stop, step]
          else
            let stop := length
            .ok [start, stop, step]
        else
          let stop := (capSlice length (parts.getD 1 default).N step)
          .ok [start, stop, step]
    else
      let stepValueNegative := false
      if (!(parts.getD 0 default).Specified) = true then
        if stepValueNegative = true then
          let start := (wrap64 (length - (1 : Int)))
          if (!(parts.getD 1 default).Specified) = true then
            if stepValueNegative = true then
              let stop := (-1 : Int)
              .ok [start, stop, step]
            else
              let stop := length
              .ok [start, stop, step]
          else
            let stop := (capSlice length (parts.getD 1 default).N step)
            .ok [start, stop, step]
        else
          let start := (0 : Int)
          if (!(parts.getD 1 default).Specified) = true then
            if stepValueNegative = true then
              let stop := (-1 : Int)
              .ok [start, stop, step]
            else
              let stop := length
              .ok [start, stop, step]
          else
            let stop := (capSlice length (parts.getD 1 default).N step)
            .ok [start, stop, step]
      else
        let start := (capSlice length (parts.getD 0 default).N step)
        if (!(parts.getD 1 default).Specified) = true then
          if stepValueNegative = true then
            let stop := (-1 : Int)
            .ok [start, stop, step]
          else
            let stop := length
            .ok [start, stop, step]
        else
          let stop := (capSlice length (parts.getD 1 default).N step)
          .ok [start, stop, step]
  else
    if ((parts.getD 2 default).N == (0 : Int)) = true then
      .error "Invalid slice, step cannot be 0"
    else
      let step := (parts.getD 2 default).N
      let stepValueNegative := false
      if (decide (step < (0 : Int))) = true then
        let stepValueNegative := true
        if (!(parts.getD 0 default).Specified) = true then
          if stepValueNegative = true then
            let start := (wrap64 (length - (1 : Int)))
            if (!(parts.getD 1 default).Specified) = true then
              if stepValueNegative = true then
                let stop := (-1 : Int)
                .ok [start, stop, step]
              else
                let stop := length
                .ok [start, stop, step]
            else
              let stop := (capSlice length (parts.getD 1 default).N step)
              .ok [start, stop, step]
          else
            let start := (0 : Int)
            if (!(parts.getD 1 default).Specified) = true then
              if stepValueNegative = true then
                let stop := (-1 : Int)
                .ok [start, stop, step]
              else
                let stop := length
                .ok [start, stop, step]
            else
              let stop := (capSlice length (parts.getD 1 default).N step)
              .ok [start, stop, step]
        else
          let start := (capSlice length (parts.getD 0 default).N step)
          if (!(parts.getD 1 default).Specified) = true then
            if stepValueNegative = true then
              let stop := (-1 : Int)
              .ok [start, stop, step]
            else
              let stop := length
              .ok [start, stop, step]
          else
            let stop := (capSlice length (parts.getD 1 default).N step)
            .ok [start, stop, step]
      else
        let stepValueNegative := false
        if (!(parts.getD 0 default).Specified) = true then
          if stepValueNegative = true then
            let start := (wrap64 (length - (1 : Int)))
            if (!(parts.getD 1 default).Specified) = true then
              if stepValueNegative = true then
                let stop := (-1 : Int)
                .ok [start, stop, step]
              else
                let stop := length
                .ok [start, stop, step]
            else
              let stop := (capSlice length (parts.getD 1 default).N step)
              .ok [start, stop, step]
          else
            let start := (0 : Int)
            if (!(parts.getD 1 default).Specified) = true then
              if stepValueNegative = true then
                let stop := (-1 : Int)
                .ok [start, stop, step]
              else
                let stop := length
                .ok [start, stop, step]
            else
              let stop := (capSlice length (parts.getD 1 default).N step)
              .ok [start, stop, step]
        else
          let start := (capSlice length (parts.getD 0 default).N step)
          if (!(parts.getD 1 default).Specified) = true then
            if stepValueNegative = true then
              let stop := (-1 : Int)
              .ok [start, stop, step]
            else
              let stop := length
              .ok [start, stop, step]
          else
            let stop := (capSlice length (parts.getD 1 default).N step)
            .ok [start, stop, step]

end Jmes.GenSlice
