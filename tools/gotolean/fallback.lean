-- FALLBACK copy (tools/gotolean refused the current util.go): the translation of the pinned sources, kept so that the project builds; the flags say that the tie is by correspondence only.
import Jmes.Slice
import Jmes.Value
import Jmes.Ast
namespace Jmes.GenSlice
open Jmes.Slice (wrap64)

/-- `true`: the definitions below are the translation of the Go source; `false`: the translator
    refused the source and they are aliases of the hand-written model. -/
def translated : Bool := false

structure SliceParam where
  N : Int
  Specified : Bool
  deriving Inhabited, Repr, DecidableEq

def capSlice (length : Int) (actual : Int) (step : Int) : Int :=
  if (decide (actual < (0 : Int))) = true then
    let actual := (wrap64 (actual + length))
    if (decide (actual < (0 : Int))) = true then
      if (decide (step < (0 : Int))) = true then
        let actual := (-1 : Int)
        actual
      else
        let actual := (0 : Int)
        actual
    else
      actual
  else
    if (decide (actual ≥ length)) = true then
      if (decide (step < (0 : Int))) = true then
        let actual := (wrap64 (length - (1 : Int)))
        actual
      else
        let actual := length
        actual
    else
      actual

def computeSliceParams (length : Int) (parts : List SliceParam) : Except String (List Int) :=
  let start := (0 : Int)
  let stop := (0 : Int)
  let step := (0 : Int)
  if (!(parts.getD 2 default).Specified) = true then
    let step := (1 : Int)
    let stepValueNegative := false
    if (decide (step < (0 : Int))) = true then
      let stepValueNegative := true
      if (!(parts.getD 0 default).Specified) = true then
        if stepValueNegative = true then
          let start := (wrap64 (length - (1 : Int)))
          if (!(parts.getD 1 default).Specified) = true then
            if stepValueNegative = true then
              let stop := (-1 : Int)
              .ok [start, stop, step]
            else
              let stop := length
              .ok [start, stop, step]
          else
            let stop := (capSlice length (parts.getD 1 default).N step)
            .ok [start, stop, step]
        else
          let start := (0 : Int)
          if (!(parts.getD 1 default).Specified) = true then
            if stepValueNegative = true then
              let stop := (-1 : Int)
              .ok [start, stop, step]
            else
              let stop := length
              .ok [start, stop, step]
          else
            let stop := (capSlice length (parts.getD 1 default).N step)
            .ok [start, stop, step]
      else
        let start := (capSlice length (parts.getD 0 default).N step)
        if (!(parts.getD 1 default).Specified) = true then
          if stepValueNegative = true then
            let stop := (-1 : Int)
            .ok [start, stop, step]
          else
            let stop := length
            .ok [start, stop, step]
        else
          let stop := (capSlice length (parts.getD 1 default).N step)
          .ok [start, stop, step]
    else
      let stepValueNegative := false
      if (!(parts.getD 0 default).Specified) = true then
        if stepValueNegative = true then
          let start := (wrap64 (length - (1 : Int)))
          if (!(parts.getD 1 default).Specified) = true then
            if stepValueNegative = true then
              let stop := (-1 : Int)
              .ok [start, stop, step]
            else
              let stop := length
              .ok [start, stop, step]
          else
            let stop := (capSlice length (parts.getD 1 default).N step)
            .ok [start, stop, step]
        else
          let start := (0 : Int)
          if (!(parts.getD 1 default).Specified) = true then
            if stepValueNegative = true then
              let stop := (-1 : Int)
              .ok [start, stop, step]
            else
              let stop := length
              .ok [start, stop, step]
          else
            let stop := (capSlice length (parts.getD 1 default).N step)
            .ok [start, stop, step]
      else
        let start := (capSlice length (parts.getD 0 default).N step)
        if (!(parts.getD 1 default).Specified) = true then
          if stepValueNegative = true then
            let stop := (-1 : Int)
            .ok [start, stop, step]
          else
            let stop := length
            .ok [start, stop, step]
        else
          let stop := (capSlice length (parts.getD 1 default).N step)
          .ok [start, stop, step]
  else
    if ((parts.getD 2 default).N == (0 : Int)) = true then
      .error "Invalid slice, step cannot be 0"
    else
      let step := (parts.getD 2 default).N
      let stepValueNegative := false
      if (decide (step < (0 : Int))) = true then
        let stepValueNegative := true
        if (!(parts.getD 0 default).Specified) = true then
          if stepValueNegative = true then
            let start := (wrap64 (length - (1 : Int)))
            if (!(parts.getD 1 default).Specified) = true then
              if stepValueNegative = true then
                let stop := (-1 : Int)
                .ok [start, stop, step]
              else
                let stop := length
                .ok [start, stop, step]
            else
              let stop := (capSlice length (parts.getD 1 default).N step)
              .ok [start, stop, step]
          else
            let start := (0 : Int)
            if (!(parts.getD 1 default).Specified) = true then
              if stepValueNegative = true then
                let stop := (-1 : Int)
                .ok [start, stop, step]
              else
                let stop := length
                .ok [start, stop, step]
            else
              let stop := (capSlice length (parts.getD 1 default).N step)
              .ok [start, stop, step]
        else
          let start := (capSlice length (parts.getD 0 default).N step)
          if (!(parts.getD 1 default).Specified) = true then
            if stepValueNegative = true then
              let stop := (-1 : Int)
              .ok [start, stop, step]
            else
              let stop := length
              .ok [start, stop, step]
          else
            let stop := (capSlice length (parts.getD 1 default).N step)
            .ok [start, stop, step]
      else
        let stepValueNegative := false
        if (!(parts.getD 0 default).Specified) = true then
          if stepValueNegative = true then
            let start := (wrap64 (length - (1 : Int)))
            if (!(parts.getD 1 default).Specified) = true then
              if stepValueNegative = true then
                let stop := (-1 : Int)
                .ok [start, stop, step]
              else
                let stop := length
                .ok [start, stop, step]
            else
              let stop := (capSlice length (parts.getD 1 default).N step)
              .ok [start, stop, step]
          else
            let start := (0 : Int)
            if (!(parts.getD 1 default).Specified) = true then
              if stepValueNegative = true then
                let stop := (-1 : Int)
                .ok [start, stop, step]
              else
                let stop := length
                .ok [start, stop, step]
            else
              let stop := (capSlice length (parts.getD 1 default).N step)
              .ok [start, stop, step]
        else
          let start := (capSlice length (parts.getD 0 default).N step)
          if (!(parts.getD 1 default).Specified) = true then
            if stepValueNegative = true then
              let stop := (-1 : Int)
              .ok [start, stop, step]
            else
              let stop := length
              .ok [start, stop, step]
          else
            let stop := (capSlice length (parts.getD 1 default).N step)
            .ok [start, stop, step]

/-- the two loops of `slice` below are the pattern translation of the Go source -/
def loopsTranslated : Bool := false

def sliceLoop1 {α : Type} (xs : List α) (start stop step : Int) : Nat → Int → Res (List α)
  | 0, i => if (decide (i < stop)) = true then Slice.hang else .ok []
  | fuel + 1, i =>
    if (decide (i < stop)) = true then
      match Slice.getIdx xs i with
      | none => Slice.idxPanic
      | some x =>
        if (decide (step ≥ (wrap64 (stop - i)))) = true then .ok [x]
        else
          let i := (wrap64 (i + step))
          match sliceLoop1 xs start stop step fuel i with
          | .ok r => .ok (x :: r)
          | e => e
    else .ok []

def sliceLoop2 {α : Type} (xs : List α) (start stop step : Int) : Nat → Int → Res (List α)
  | 0, i => if (decide (i > stop)) = true then Slice.hang else .ok []
  | fuel + 1, i =>
    if (decide (i > stop)) = true then
      match Slice.getIdx xs i with
      | none => Slice.idxPanic
      | some x =>
        if (decide (step ≤ (wrap64 (stop - i)))) = true then .ok [x]
        else
          let i := (wrap64 (i + step))
          match sliceLoop2 xs start stop step fuel i with
          | .ok r => .ok (x :: r)
          | e => e
    else .ok []

def slice {α : Type} (fuel : Nat) (xs : List α) (parts : List SliceParam) : Res (List α) :=
  match computeSliceParams (xs.length : Int) parts with
  | .error msg => .err (.other msg)
  | .ok computed =>
    match computed[0]?, computed[1]?, computed[2]? with
    | some start, some stop, some step =>
      if (decide (step > (0 : Int))) = true then sliceLoop1 xs start stop step fuel start
      else sliceLoop2 xs start stop step fuel start
    | _, _, _ => .panic "util.go: computed[k] index out of range"

/-- util.go `isFalse` on decoded JSON: the clauses of its type switch, translated -/
def isFalseTranslated : Bool := false

def isFalse {N : Type} : Val N → Bool
  | .null => true
  | .bool v => (!v)
  | .str s => let length : Int := s.length; (length == (0 : Int))
  | .arr xs => let length : Int := xs.length; (length == (0 : Int))
  | .obj kvs => let length : Int := kvs.length; (length == (0 : Int))
  | .num _ => false   -- a float64 matches no clause of the type switch and no case of the Kind switch

/-- interpreter.go, `case ASTIndex:` on a `[]interface{}` of length `length`: the selected position, `none` = null -/
def indexTranslated : Bool := false

def indexSel (length : Int) (index : Int) : Option Int :=
  if (decide (index < (0 : Int))) = true then
    let index := (wrap64 (index + length))
    if ((decide (index < length)) && (decide (index ≥ (0 : Int)))) = true then
      some index
    else
      none
  else
    if ((decide (index < length)) && (decide (index ≥ (0 : Int)))) = true then
      some index
    else
      none

/-- interpreter.go, `case ASTComparator:` after the operands are evaluated: the statements in order -/
def comparatorTranslated : Bool := false

def compareVals {N : Type} [NumOps N] (op : Cmp) (left right : Val N) : Val N :=
  match op with
  | .eq => .bool (Val.deepEq left right)
  | .ne => .bool (!(Val.deepEq left right))
  | _ =>
    match left with
    | .num leftNum =>
      match right with
      | .num rightNum =>
        match op with
        | .gt => .bool (NumOps.lt rightNum leftNum)
        | .gte => .bool (NumOps.le rightNum leftNum)
        | .lt => .bool (NumOps.lt leftNum rightNum)
        | .lte => .bool (NumOps.le leftNum rightNum)
        | _ =>
          .null  -- falls out of the clause
      | _ => .null
    | _ => .null

end Jmes.GenSlice
