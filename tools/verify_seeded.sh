#!/bin/sh
# usage: verify_seeded.sh [glob]   e.g. verify_seeded.sh 'C*-m3'
# Confirm each seeded change in a scratch worktree: applies, builds, suite passes with it,
# demonstration fails with it and passes without it.  Writes seeded/<id>/meta.json.
export GOFLAGS=-mod=mod GOPROXY=off GOSUMDB=off GOTOOLCHAIN=local
WT=/tmp/wt/verify
git -C /repo worktree remove --force $WT 2>/dev/null
git -C /repo worktree add -q --detach $WT HEAD || exit 2
for d in /verif/seeded/*/; do
  id=$(basename $d); prop=${id%%-*}
  if [ -n "$1" ]; then case "$id" in $1) ;; *) continue;; esac; fi
  [ -f $d/patch.diff ] || continue
  cd $WT && git checkout -q -- . && git clean -fdq
  demo=$(ls $d/*_test.go 2>/dev/null | head -1)
  applies=no; builds=no; suite=no; demo_with=na; demo_without=na
  if [ -n "$demo" ]; then
    case "$demo" in *jpgo*|*cli*) dst=$WT/cmd/jpgo/;; *) dst=$WT/;; esac
    grep -q "^package main" "$demo" && dst=$WT/cmd/jpgo/
    cp "$demo" $dst
    race=""; grep -qi "race" $d/NOTES.md 2>/dev/null && race="-race"
    pkg=$( [ "$dst" = "$WT/" ] && echo . || echo ./cmd/jpgo )
    if CGO_ENABLED=$( [ -n "$race" ] && echo 1 || echo 0 ) go test $race -vet=off -count=1 -run 'Demo|demo|ZZ|zz|Mut|C[0-9][0-9]' $pkg >/tmp/demo0.log 2>&1; then demo_without=pass; else demo_without=FAIL; fi
    rm -f $dst/$(basename $demo)
  fi
  if git apply $d/patch.diff 2>/dev/null || (git apply -3 $d/patch.diff 2>/dev/null && git reset -q); then applies=yes; fi
  if [ $applies = yes ]; then
    if go build ./... >/dev/null 2>&1 && go build -tags verif ./... >/dev/null 2>&1; then builds=yes; fi
    if go test -vet=off -count=1 ./... >/tmp/suite.log 2>&1; then suite=pass; else suite=FAIL; fi
    if [ -n "$demo" ]; then
      cp "$demo" $dst
      if CGO_ENABLED=$( [ -n "$race" ] && echo 1 || echo 0 ) go test $race -vet=off -count=1 -run 'Demo|demo|ZZ|zz|Mut|C[0-9][0-9]' $pkg >/tmp/demo1.log 2>&1; then demo_with=pass; else demo_with=fail; fi
      rm -f $dst/$(basename $demo)
    fi
  fi
  needs=$(sed -n '1,12p' $d/NOTES.md | python3 -c "import sys,json; print(json.dumps(' '.join(sys.stdin.read().split())[:600])[1:-1])")
  cat > $d/meta.json <<EOM
{"id": "$id", "property": "$prop", "patch_applies_to_HEAD": "$applies", "builds_with_and_without_tag": "$builds",
 "existing_suite_with_change": "$suite", "demonstration_without_change": "$demo_without", "demonstration_with_change": "$demo_with",
 "what_it_needs_to_manifest": "$needs",
 "ran": "tools/verify_seeded.sh in scratch worktree $WT: git apply; go build ./... (plain and -tags verif); go test ./...; go test -run <demo> with and without the change"}
EOM
  echo "$id applies=$applies builds=$builds suite=$suite demo_without=$demo_without demo_with=$demo_with"
done
cd / && git -C /repo worktree remove --force $WT
