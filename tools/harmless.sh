#!/bin/sh
# usage: harmless.sh <dir-with-N.diff> [props...]  -- apply each behaviour-preserving rewrite to /repo, run every quick check, undo.
# Prints one line per (rewrite, property) that is not a clean pass.  Evidence files are overwritten: re-run the
# checks on the clean tree afterwards.
dir="$1"; shift
props="${*:-C01 C02 C03 C04 C05 C06 C07 C08 C09 C10 C11 C12 C13 C14 C15 C16 C17 C18 C19}"
cd /repo || exit 2
if ! git diff --quiet; then echo "/repo has uncommitted changes"; exit 2; fi
for d in "$dir"/*.diff; do
  cd /repo
  if ! git apply "$d" 2>/dev/null; then echo "$d: does not apply"; continue; fi
  for p in $props; do
    out=$(cd /verif && ./check $p quick 2>&1); rc=$?
    if [ $rc -ne 0 ] || echo "$out" | grep -q VIOLATION; then
      echo "ALARM $(basename $dir)/$(basename $d) $p rc=$rc: $(echo "$out" | grep -E 'VIOLATION|obligations|error' | head -3 | tr '\n' ' ')"
      mkdir -p /tmp/wt/alarms; echo "$out" > /tmp/wt/alarms/$(basename $dir)-$(basename $d)-$p.log
    fi
  done
  echo "done $(basename $dir)/$(basename $d)"
  cd /repo && git checkout -- . && git clean -fdq -e verif_hooks.go
done
