#!/bin/sh
# usage: mutcheck.sh <patch.diff> <Cxx> [tier]   -- apply a seeded change to /repo, run the check, undo it
patch="$1"; prop="$2"; tier="${3:-quick}"
cd /repo || exit 2
if ! git diff --quiet; then echo "/repo has uncommitted changes"; exit 2; fi
if ! git apply "$patch" 2>/dev/null; then
  if ! git apply -3 "$patch" 2>/dev/null; then echo "patch does not apply"; git reset -q --hard HEAD; exit 3; fi
  git reset -q
fi
cd /verif && ./check "$prop" "$tier" 2>&1 | tail -4
rc=$?
cd /repo && git checkout -- . && git clean -fdq -e verif_hooks.go
exit 0
