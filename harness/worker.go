package main

// The Go side of the line protocol: runs one request against the real
// library (built from /repo's working tree with -tags verif) and renders the
// outcome; also evaluates the implementation-level oracles and reports their
// failures as flags ("!flag,flag").

import (
	"encoding/json"
	"fmt"
	"reflect"
	"strconv"
	"strings"
	"sync"
	"sync/atomic"
	"time"
	"unicode/utf8"

	jmespath "github.com/jmespath/go-jmespath"
)

type outcome struct {
	base  string
	flags []string
}

func (o outcome) String() string {
	if len(o.flags) == 0 {
		return o.base
	}
	return o.base + " !" + strings.Join(o.flags, ",")
}

func errBase(err error) string {
	if se, ok := err.(jmespath.SyntaxError); ok {
		return "errsyn " + strconv.Itoa(se.Offset)
	}
	return "err"
}

// safely runs f and reports a panic.
func safely(f func()) (panicked bool, msg string) {
	defer func() {
		if r := recover(); r != nil {
			panicked = true
			msg = fmt.Sprint(r)
		}
	}()
	f()
	return
}

func doCompile(expr string) outcome {
	var o outcome
	var jp *jmespath.JMESPath
	var err error
	if p, _ := safely(func() { jp, err = jmespath.Compile(expr) }); p {
		o.base = "panic"
		return o
	}
	if (jp == nil) == (err == nil) {
		o.flags = append(o.flags, "contract")
	}
	if err != nil {
		o.base = errBase(err)
		if se, ok := err.(jmespath.SyntaxError); ok {
			if se.Expression != expr {
				o.flags = append(o.flags, "synexpr")
			}
			if se.Offset < 0 || se.Offset > len(expr) {
				o.flags = append(o.flags, "synoff")
			}
			var hl string
			if p, _ := safely(func() { hl = se.HighlightLocation() }); p {
				o.flags = append(o.flags, "synhlpanic")
			} else if se.Offset >= 0 && hl != se.Expression+"\n"+strings.Repeat(" ", se.Offset)+"^" {
				o.flags = append(o.flags, "synhl")
			}
		}
	} else if jp != nil {
		o.base = "ok " + jmespath.VerifDumpAST(jmespath.VerifCompiledAST(jp))
	} else {
		o.base = "ok ?nil"
	}
	// MustCompile panics exactly when Compile fails, naming the expression.
	var mjp *jmespath.JMESPath
	mp, mmsg := safely(func() { mjp = jmespath.MustCompile(expr) })
	if mp != (err != nil) {
		o.flags = append(o.flags, "must")
	} else if mp && !strings.Contains(mmsg, strconv.Quote(expr)) {
		o.flags = append(o.flags, "mustmsg")
	} else if !mp && (mjp == nil || (jp != nil &&
		jmespath.VerifDumpAST(jmespath.VerifCompiledAST(mjp)) != jmespath.VerifDumpAST(jmespath.VerifCompiledAST(jp)))) {
		o.flags = append(o.flags, "mustval")
	}
	if len(expr) < 2000 {
		sharedParserCheck(expr, &o)
	}
	// A fresh Parser agrees with Compile.
	var node jmespath.ASTNode
	var perr error
	if p, _ := safely(func() { node, perr = jmespath.NewParser().Parse(expr) }); p {
		o.flags = append(o.flags, "parserpanic")
	} else if (perr != nil) != (err != nil) {
		o.flags = append(o.flags, "parserdiff")
	} else if perr == nil && jp != nil && jmespath.VerifDumpAST(node) != jmespath.VerifDumpAST(jmespath.VerifCompiledAST(jp)) {
		o.flags = append(o.flags, "parserast")
	}
	return o
}

func validStrings(v interface{}) bool {
	switch t := v.(type) {
	case string:
		return utf8.ValidString(t)
	case []interface{}:
		for _, e := range t {
			if !validStrings(e) {
				return false
			}
		}
	case map[string]interface{}:
		for k, e := range t {
			if !utf8.ValidString(k) || !validStrings(e) {
				return false
			}
		}
	}
	return true
}

func searchBase(res interface{}, err error, panicked bool) string {
	if panicked {
		return "panic"
	}
	if err != nil {
		return errBase(err)
	}
	return "ok " + jmespath.VerifCanon(res)
}

// History of the process: the first few successful one-shot searches are remembered and asked again, unchanged, after
// more than a thousand other expressions have gone through the same process (and every 150 calls after that): whatever
// the library keeps between calls — a cache of compiled expressions with an eviction rule, a memo keyed by something
// weaker than the expression — must not change their answers.
var (
	histCalls int
	histKept  [][3]string // expression, document, answer
	lastOK    [3]string   // the most recent successful one-shot search
)

func historyCheck(o *outcome) {
	histCalls++
	if histCalls < 1100 || histCalls%150 != 0 || len(histKept) == 0 {
		return
	}
	h := histKept[(histCalls/150)%len(histKept)]
	doc, err := parseCanon(h[1])
	if err != nil {
		return
	}
	var res interface{}
	var serr error
	p, _ := safely(func() { res, serr = jmespath.Search(h[0], doc) })
	if got := searchBase(res, serr, p); got != h[2] {
		o.flags = append(o.flags, "history:"+hexField(h[0])+":first="+truncate(h[2], 80)+":now="+truncate(got, 80))
	}
}

// One Parser serves every request of the process, as a caller who keeps a Parser would use it: the AST it handed out for
// the previous request must read the same after it has parsed (or failed to parse) the next one.
var (
	sharedParser  = jmespath.NewParser()
	sharedPrev    jmespath.ASTNode
	sharedPrevStr string
	sharedHave    bool
)

// what a kept Parser may have been through before the next request: calls that failed at every stage, leaving whatever a
// failure leaves (half-consumed tokens, a half-filled string buffer, an index in the middle)
var parserPoison = []string{"people[?name == 'O\\'Bri", "'a\\'b\\'c", "\"abc\\\"d", "`[1, \\`", "foo[", "a.", "'x", "foo[?a == 'p\\'q'] | 'r\\'", "{a: 'z\\'z', b: \"", "a ~ b", "[1:2:3:4]", "abs('q\\'q', ", "&", "\"\\ud83d"}

func sharedParserCheck(expr string, o *outcome) {
	var node jmespath.ASTNode
	var perr error
	if h := fnv32(expr); h%4 == 1 {
		safely(func() { sharedParser.Parse(parserPoison[int(h/4)%len(parserPoison)]) })
	}
	if p, _ := safely(func() { node, perr = sharedParser.Parse(expr) }); p {
		o.flags = append(o.flags, "sharedparserpanic")
		sharedParser, sharedHave = jmespath.NewParser(), false
		return
	}
	if sharedHave {
		var now string
		if p, _ := safely(func() { now = jmespath.VerifDumpAST(sharedPrev) }); p || now != sharedPrevStr {
			o.flags = append(o.flags, "astchanged:was="+truncate(sharedPrevStr, 80)+":now="+truncate(now, 80))
		}
	}
	sharedHave = perr == nil
	if perr == nil {
		sharedPrev, sharedPrevStr = node, jmespath.VerifDumpAST(node)
		// and the reused Parser agrees with a fresh one
		if fresh, ferr := jmespath.NewParser().Parse(expr); ferr != nil || jmespath.VerifDumpAST(fresh) != sharedPrevStr {
			o.flags = append(o.flags, "sharedparserdiff")
		}
	} else if _, ferr := jmespath.NewParser().Parse(expr); ferr == nil {
		o.flags = append(o.flags, "sharedparserdiff")
	}
}

func doSearch(expr string, docText string, unordered bool) (o outcome) {
	defer func() {
		if len(expr) < 2000 {
			sharedParserCheck(expr, &o)
		}
		if len(histKept) < 6 && strings.HasPrefix(o.base, "ok ") && !unordered && !mayObserveOrder(expr) && len(docText) < 4000 {
			histKept = append(histKept, [3]string{expr, docText, o.base})
		}
		historyCheck(&o)
	}()
	doc, perr := parseCanon(docText)
	if perr != nil {
		o.base = "bad-request"
		return o
	}
	before := jmespath.VerifCanon(doc)
	var res interface{}
	var err error
	t0 := time.Now()
	p, _ := safely(func() { res, err = jmespath.Search(expr, doc) })
	soloTime := time.Since(t0)
	o.base = searchBase(res, err, p)
	// An expression that observes the unspecified iteration order of object members (through `*`,
	// keys(), values()) legitimately answers differently from run to run; the property is stated
	// "up to that order".  The generators avoid such expressions, this is the safety net: if repeated
	// one-shot runs of the implementation disagree among themselves, the case is not comparable.
	if !p && !unordered && mayObserveOrder(expr) {
		for i := 0; i < 5; i++ {
			var r2 interface{}
			var e2 error
			p2, _ := safely(func() { r2, e2 = jmespath.Search(expr, doc) })
			if searchBase(r2, e2, p2) != o.base {
				o.base = "unstable"
				if jmespath.VerifCanon(doc) != before {
					o.flags = append(o.flags, "docmut")
				}
				return o
			}
		}
	}
	norm := func(s string) string {
		if unordered {
			return sortTopLevel(s)
		}
		return s
	}
	if jmespath.VerifCanon(doc) != before {
		o.flags = append(o.flags, "docmut")
	}
	// a call that failed leaves nothing behind: the last search that succeeded still succeeds, with the same answer
	if err != nil && lastOK[0] != "" {
		if d2, e := parseCanon(lastOK[1]); e == nil {
			var r2 interface{}
			var e2 error
			p2, _ := safely(func() { r2, e2 = jmespath.Search(lastOK[0], d2) })
			if got := searchBase(r2, e2, p2); got != lastOK[2] {
				o.flags = append(o.flags, "afterfailure:"+hexField(lastOK[0])+":first="+truncate(lastOK[2], 80)+":now="+truncate(got, 80))
			}
		}
	}
	if !p && err == nil && !unordered && !mayObserveOrder(expr) && len(docText) < 4000 {
		lastOK = [3]string{expr, docText, o.base}
	}
	if !p && err == nil {
		c := o.base
		if strings.Contains(c, "?") || strings.Contains(c, "nil[") || strings.Contains(c, "nil{") {
			o.flags = append(o.flags, "nonjson")
		} else if validStrings(res) && depthOf(res, 0) < 1000 { // encoding/json itself refuses very deep nesting
			js, merr := json.Marshal(res)
			if merr != nil {
				o.flags = append(o.flags, "nomarshal")
			} else {
				var back interface{}
				if uerr := json.Unmarshal(js, &back); uerr != nil || !reflect.DeepEqual(back, res) {
					o.flags = append(o.flags, "roundtrip")
				}
			}
		}
	}
	// compiled path = one-shot path, and repeatable
	if !p {
		var jp *jmespath.JMESPath
		var cerr error
		cp, _ := safely(func() { jp, cerr = jmespath.Compile(expr) })
		// Compile accepts exactly the expressions the one-shot Search parses
		_, syn := err.(jmespath.SyntaxError)
		if cp || (err == nil && cerr != nil) || (syn && cerr == nil) {
			o.flags = append(o.flags, "compileaccepts")
		}
		if !cp && cerr == nil && jp != nil {
			for i := 0; i < 2; i++ {
				var r2 interface{}
				var e2 error
				p2, _ := safely(func() { r2, e2 = jp.Search(doc) })
				if norm(searchBase(r2, e2, p2)) != norm(o.base) {
					o.flags = append(o.flags, "compiled"+strconv.Itoa(i+1))
					break
				}
			}
			if jmespath.VerifCanon(doc) != before {
				o.flags = append(o.flags, "docmut2")
			}
			// concurrent use of the compiled expression (a sample of the cases: those whose text hashes to
			// 0 mod 8): 8 goroutines released together, 60 searches each, every answer must be the solo answer
			if o.base != "unstable" && (unordered || !mayObserveOrder(expr)) && fnv32(expr)%8 == 0 && soloTime < 2*time.Millisecond {
				want := norm(o.base)
				var wg sync.WaitGroup
				start := make(chan struct{})
				var bad int32
				for gi := 0; gi < 8; gi++ {
					wg.Add(1)
					go func() {
						defer wg.Done()
						<-start
						for it := 0; it < 60 && atomic.LoadInt32(&bad) == 0; it++ {
							var r2 interface{}
							var e2 error
							p2, _ := safely(func() { r2, e2 = jp.Search(doc) })
							if norm(searchBase(r2, e2, p2)) != want {
								atomic.StoreInt32(&bad, 1)
							}
						}
					}()
				}
				close(start)
				wg.Wait()
				if bad != 0 {
					o.flags = append(o.flags, "concurrent")
				}
			}
		}
	}
	if unordered {
		o.base = sortTopLevel(o.base)
	}
	return o
}

func fnv32(s string) uint32 {
	h := uint32(2166136261)
	for i := 0; i < len(s); i++ {
		h = (h ^ uint32(s[i])) * 16777619
	}
	return h
}

func mayObserveOrder(expr string) bool {
	return strings.Contains(expr, "*") || strings.Contains(expr, "keys") || strings.Contains(expr, "values")
}

func doJSONDecode(text string) outcome {
	var v interface{}
	if err := json.Unmarshal([]byte(text), &v); err != nil {
		return outcome{base: "err"}
	}
	return outcome{base: "ok " + jmespath.VerifCanon(v)}
}

func doJSONEncode(canon string, indent bool) outcome {
	v, err := parseCanon(canon)
	if err != nil {
		return outcome{base: "bad-request"}
	}
	var out []byte
	if indent {
		out, err = json.MarshalIndent(v, "", "  ")
	} else {
		out, err = json.Marshal(v)
	}
	if err != nil {
		return outcome{base: "err"}
	}
	return outcome{base: "ok " + hexField(string(out))}
}

var extraOps func(f []string) (outcome, bool)

// execLine answers one protocol line.
func execLine(line string) outcome {
	f := strings.Fields(line)
	if len(f) == 0 {
		return outcome{base: "bad-request"}
	}
	switch {
	case f[0] == "C" && len(f) == 2:
		e, err := unhexField(f[1])
		if err != nil {
			break
		}
		return doCompile(e)
	case (f[0] == "S" || f[0] == "SU" || f[0] == "Q") && len(f) == 3:
		e, err := unhexField(f[1])
		if err != nil {
			break
		}
		return doSearch(e, f[2], f[0] == "SU")
	case f[0] == "J" && len(f) == 2:
		t, err := unhexField(f[1])
		if err != nil {
			break
		}
		return doJSONDecode(t)
	case f[0] == "E" && len(f) == 2:
		return doJSONEncode(f[1], false)
	case f[0] == "I" && len(f) == 2:
		return doJSONEncode(f[1], true)
	case f[0] == "A" && len(f) == 2:
		return doAPISequence(f[1])
	case f[0] == "Z" && len(f) == 2:
		n, _ := strconv.Atoi(f[1])
		poison(n)
		return outcome{base: "ok z"}
	}
	if extraOps != nil {
		if o, ok := extraOps(f); ok {
			return o
		}
	}
	return outcome{base: "bad-request"}
}

func depthOf(v interface{}, d int) int {
	if d > 1000 {
		return d
	}
	m := d
	switch t := v.(type) {
	case []interface{}:
		for _, e := range t {
			if x := depthOf(e, d+1); x > m {
				m = x
			}
		}
	case map[string]interface{}:
		for _, e := range t {
			if x := depthOf(e, d+1); x > m {
				m = x
			}
		}
	}
	return m
}
