package main

// Operation sequences on compiled expressions, parsers and shared documents
// (history independence, one-shot = compiled).

import (
	"strings"

	jmespath "github.com/jmespath/go-jmespath"
)

func doAPISequence(seq string) outcome {
	var o outcome
	handles := map[string]*jmespath.JMESPath{}
	parsers := map[string]*jmespath.Parser{}
	docs := map[string]interface{}{}
	docCanon := map[string]string{}
	var answers []string
	lastAST := map[string]struct {
		node jmespath.ASTNode
		dump string
	}{}
	for _, op := range strings.Split(seq, ";") {
		parts := strings.Split(op, ".")
		ans := "bad-op"
		switch {
		case strings.HasPrefix(parts[0], "d") && len(parts) == 2:
			v, err := parseCanon(parts[1])
			if err == nil {
				docs[parts[0][1:]] = v
				docCanon[parts[0][1:]] = parts[1]
				ans = "ok"
			}
		case strings.HasPrefix(parts[0], "c") && len(parts) == 2:
			e, err := unhexField(parts[1])
			if err != nil {
				break
			}
			var jp *jmespath.JMESPath
			var cerr error
			if p, _ := safely(func() { jp, cerr = jmespath.Compile(e) }); p {
				ans = "panic"
			} else if cerr != nil {
				ans = errBase(cerr)
				delete(handles, parts[0][1:])
			} else {
				handles[parts[0][1:]] = jp
				ans = "ok"
			}
		case strings.HasPrefix(parts[0], "s") && len(parts) == 2:
			jp, ok := handles[parts[0][1:]]
			doc, dok := docs[parts[1]]
			if !ok || !dok {
				ans = "nohandle"
				break
			}
			var r interface{}
			var err error
			p, _ := safely(func() { r, err = jp.Search(doc) })
			ans = searchBase(r, err, p)
		case parts[0] == "o" && len(parts) == 3:
			e, err := unhexField(parts[1])
			doc, dok := docs[parts[2]]
			if err != nil || !dok {
				break
			}
			var r interface{}
			var serr error
			p, _ := safely(func() { r, serr = jmespath.Search(e, doc) })
			ans = searchBase(r, serr, p)
		case strings.HasPrefix(parts[0], "p") && len(parts) == 2:
			e, err := unhexField(parts[1])
			if err != nil {
				break
			}
			k := parts[0][1:]
			if parsers[k] == nil {
				parsers[k] = jmespath.NewParser()
			}
			var node jmespath.ASTNode
			var perr error
			if p, _ := safely(func() { node, perr = parsers[k].Parse(e) }); p {
				ans = "panic"
			} else if perr != nil {
				ans = errBase(perr)
			} else {
				ans = "ok " + jmespath.VerifDumpAST(node)
				// an AST handed out earlier by the same Parser must not change when the Parser is used again
				if prev, ok := lastAST[k]; ok && jmespath.VerifDumpAST(prev.node) != prev.dump {
					o.flags = append(o.flags, "astchanged")
				}
				lastAST[k] = struct {
					node jmespath.ASTNode
					dump string
				}{node, jmespath.VerifDumpAST(node)}
			}
		}
		answers = append(answers, ans)
		for k, d := range docs {
			if jmespath.VerifCanon(d) != docCanon[k] {
				o.flags = append(o.flags, "docmut")
				docCanon[k] = jmespath.VerifCanon(d)
			}
		}
	}
	o.base = strings.Join(answers, ";")
	return o
}
