package main

// Runner: W pipelines in parallel.  Each pipeline = one Go worker process
// (this binary in "worker" mode, generating and answering its share of the
// case indices) + one Lean driver process answering the same lines.  A worker
// that dies or hangs costs one case (reported as crash / timeout) and is
// restarted at the next index.

import (
	"bufio"
	"bytes"
	"fmt"
	"io"
	"os"
	"os/exec"
	"strconv"
	"strings"
	"sync"
	"sync/atomic"
	"time"

	jmespath "github.com/jmespath/go-jmespath"
)

func canonOf(v interface{}) string { return jmespath.VerifCanon(v) }

type result struct {
	stream  string
	idx     int
	line    string
	goAns   string
	leanAns string
}

type stats struct {
	mu         sync.Mutex
	evals      int
	kinds      map[string]int
	distinct   map[string]bool
	nontrivial int
	samples    []string
	bad        []result
	flags      []result
	crashes    []result
}

func newStats() *stats { return &stats{kinds: map[string]int{}, distinct: map[string]bool{}} }

func ansKind(a string) string {
	f := strings.Fields(a)
	if len(f) == 0 {
		return "empty"
	}
	if f[0] == "ok" && len(f) > 1 {
		switch {
		case f[1] == "null":
			return "ok-null"
		case strings.HasPrefix(f[1], "("):
			return "ok-ast"
		case strings.HasPrefix(f[1], "["):
			if f[1] == "[]" {
				return "ok-empty-array"
			}
			return "ok-array"
		case strings.HasPrefix(f[1], "{"):
			return "ok-object"
		case strings.HasPrefix(f[1], "n"):
			return "ok-number"
		case strings.HasPrefix(f[1], "s"):
			return "ok-string"
		default:
			return "ok-" + f[1]
		}
	}
	return f[0]
}

// stripFlags splits "base !f1,f2".
func stripFlags(a string) (string, string) {
	if i := strings.Index(a, " !"); i >= 0 {
		return a[:i], a[i+2:]
	}
	return a, ""
}

func normPanic(a string) string {
	if strings.HasPrefix(a, "panic") {
		return "panic"
	}
	return a
}

// workerMain: "worker <stream> <seed> <start> <step> <end>"; prints
// "> line" before and "< answer" after evaluating each line.
func workerMain(args []string) {
	stream := args[0]
	seed, _ := strconv.ParseUint(args[1], 10, 64)
	start, _ := strconv.Atoi(args[2])
	step, _ := strconv.Atoi(args[3])
	end, _ := strconv.Atoi(args[4])
	timeout := 5 * time.Second
	if v := os.Getenv("VERIF_CASE_TIMEOUT_MS"); v != "" {
		if n, err := strconv.Atoi(v); err == nil {
			timeout = time.Duration(n) * time.Millisecond
		}
	}
	w := bufio.NewWriterSize(os.Stdout, 1<<16)
	for idx := start; idx < end; idx += step {
		fmt.Fprintf(w, "# %d\n", idx)
		w.Flush()
		c := genCase(stream, seed, idx)
		c.lines = append([]string{zLine(seed, idx)}, c.lines...)
		for _, full := range c.lines {
			line, annot := full, ""
			if i := strings.Index(full, "\t"); i >= 0 {
				line, annot = full[:i], full[i+1:]
			}
			fmt.Fprintf(w, "> %s\n", line)
			w.Flush()
			done := make(chan outcome, 1)
			go func() { done <- checkAnnot(execLine(line), line, annot) }()
			select {
			case o := <-done:
				fmt.Fprintf(w, "< %s\n", o.String())
			case <-time.After(timeout):
				fmt.Fprintf(w, "< timeout\n")
				w.Flush()
				os.Exit(3)
			}
		}
		w.Flush()
	}
	fmt.Fprintf(w, "# done\n")
	w.Flush()
}

type leanProc struct {
	cmd *exec.Cmd
	in  io.WriteCloser
	out *bufio.Reader
}

func startLean(driver string, extra ...string) (*leanProc, error) {
	cmd := exec.Command("/bin/sh", append([]string{"-c", "ulimit -s unlimited 2>/dev/null; exec \"$0\" \"$@\"", driver}, extra...)...)
	in, err := cmd.StdinPipe()
	if err != nil {
		return nil, err
	}
	out, err := cmd.StdoutPipe()
	if err != nil {
		return nil, err
	}
	cmd.Stderr = os.Stderr
	if err := cmd.Start(); err != nil {
		return nil, err
	}
	return &leanProc{cmd: cmd, in: in, out: bufio.NewReaderSize(out, 1<<20)}, nil
}

func (l *leanProc) ask(line string) (string, error) {
	if _, err := io.WriteString(l.in, line+"\n"); err != nil {
		return "", err
	}
	a, err := l.out.ReadString('\n')
	return strings.TrimRight(a, "\n"), err
}

func (l *leanProc) stop() {
	l.in.Close()
	l.cmd.Wait()
}

type runCfg struct {
	self     string // path of this binary
	driver   string // path of the Lean driver
	leanArgs []string
	seed     uint64
	workers  int
}

// goOnly: lines the Lean driver is not asked about (judged on the
// implementation alone).
func goOnly(line string) bool {
	return strings.HasPrefix(line, "Q ") || strings.HasPrefix(line, "TY ") || strings.HasPrefix(line, "Z ") || strings.HasPrefix(line, "XB ") || strings.HasPrefix(line, "CB ") || strings.HasPrefix(line, "XD ")
}

// zLine is the history-poisoning call made before case idx (see poison.go); it is part of the
// case, so a replay repeats it.
func zLine(seed uint64, idx int) string { return fmt.Sprintf("Z %d", idx*7+int(seed%1000)) }

// runStream runs case indices [0,count) of a stream.
func runStream(cfg runCfg, stream string, count int, st *stats) {
	var wg sync.WaitGroup
	W := cfg.workers
	if count < W {
		W = 1
	}
	for w := 0; w < W; w++ {
		wg.Add(1)
		go func(w int) {
			defer wg.Done()
			lean, err := startLean(cfg.driver, cfg.leanArgs...)
			if err != nil {
				fmt.Fprintln(os.Stderr, "cannot start lean driver:", err)
				os.Exit(2)
			}
			defer lean.stop()
			start := w
			for start < count {
				cmd := exec.Command(cfg.self, "worker", stream, strconv.FormatUint(cfg.seed, 10),
					strconv.Itoa(start), strconv.Itoa(W), strconv.Itoa(count))
				cmd.Env = append(os.Environ(), "GOTRACEBACK=none")
				out, _ := cmd.StdoutPipe()
				cmd.Stderr = nil
				if err := cmd.Start(); err != nil {
					fmt.Fprintln(os.Stderr, "cannot start worker:", err)
					os.Exit(2)
				}
				rd := bufio.NewReaderSize(out, 1<<20)
				curIdx := start
				pending := ""
				finished := false
				timedOut := false
				for {
					l, err := rd.ReadString('\n')
					if err != nil {
						break
					}
					l = strings.TrimRight(l, "\n")
					switch {
					case l == "# done":
						finished = true
					case strings.HasPrefix(l, "# "):
						curIdx, _ = strconv.Atoi(l[2:])
					case strings.HasPrefix(l, "> "):
						pending = l[2:]
					case strings.HasPrefix(l, "< "):
						timedOut = l[2:] == "timeout" // the worker exits after reporting a timeout; that is not a crash
						handleAnswer(cfg, lean, stream, curIdx, pending, l[2:], st)
						pending = ""
					}
				}
				cmd.Wait()
				if finished {
					break
				}
				// the worker died (or exited on a timeout it already reported)
				if pending != "" {
					handleAnswer(cfg, lean, stream, curIdx, pending, "crash", st)
				} else if !finished && !timedOut {
					st.mu.Lock()
					st.crashes = append(st.crashes, result{stream: stream, idx: curIdx, line: "(during generation)", goAns: "crash"})
					st.mu.Unlock()
				}
				start = curIdx + W
			}
		}(w)
	}
	wg.Wait()
}

// retryAlone: a case that exceeded the per-line time limit inside a busy worker is run again, alone in a
// fresh process (after its history line), with a limit twelve times as long; only if it still does not
// answer is it a hang.  Keeps a loaded machine from turning a slow case into an alarm.
var confirmedHangs int32

func retryAlone(cfg runCfg, idx int, line string) string {
	if atomic.LoadInt32(&confirmedHangs) >= 2 {
		return "timeout" // two cases already hung when run alone: do not spend a minute on each further one
	}
	cmd := exec.Command(cfg.self, "exec")
	cmd.Env = append(os.Environ(), "GOTRACEBACK=none")
	isZ := strings.HasPrefix(line, "Z ")
	if isZ {
		cmd.Stdin = strings.NewReader(line + "\n" + line + "\n")
	} else {
		cmd.Stdin = strings.NewReader(zLine(cfg.seed, idx) + "\n" + line + "\n")
	}
	var out bytes.Buffer
	cmd.Stdout = &out
	if err := cmd.Start(); err != nil {
		return "timeout"
	}
	done := make(chan error, 1)
	go func() { done <- cmd.Wait() }()
	select {
	case <-done:
	case <-time.After(60 * time.Second):
		cmd.Process.Kill()
		<-done
		atomic.AddInt32(&confirmedHangs, 1)
		return "timeout"
	}
	ls := strings.Split(strings.TrimRight(out.String(), "\n"), "\n")
	if len(ls) < 2 {
		return "crash"
	}
	return ls[1]
}

func handleAnswer(cfg runCfg, lean *leanProc, stream string, idx int, line, goAns string, st *stats) {
	if goAns == "timeout" {
		goAns = retryAlone(cfg, idx, line)
	}
	base, flags := stripFlags(goAns)
	leanAns := ""
	if !goOnly(line) {
		a, err := lean.ask(line)
		if err != nil {
			leanAns = "lean-driver-died"
		} else {
			leanAns = a
		}
		if strings.HasPrefix(line, "SU ") {
			leanAns = sortTopLevel(leanAns)
		}
	}
	st.mu.Lock()
	defer st.mu.Unlock()
	if strings.HasPrefix(line, "Z ") {
		if base == "crash" || base == "timeout" {
			st.crashes = append(st.crashes, result{stream: stream, idx: idx, line: line, goAns: goAns})
		}
		return
	}
	st.evals++
	k := line[:strings.Index(line+" ", " ")] + ":" + ansKind(base)
	st.kinds[k]++
	if !st.distinct[line] {
		st.distinct[line] = true
		if nontrivial(line, base) {
			st.nontrivial++
		}
	}
	if len(st.samples) < 12 && (st.evals%97 == 1) {
		st.samples = append(st.samples, describe(line)+" => "+truncate(base, 160))
	}
	r := result{stream: stream, idx: idx, line: line, goAns: goAns, leanAns: leanAns}
	if base == "crash" || base == "timeout" {
		st.crashes = append(st.crashes, r)
		return
	}
	if flags != "" {
		st.flags = append(st.flags, r)
	}
	if base == "unstable" {
		// the implementation's own answers differ between runs: the expression observes the
		// unspecified object-member order; not comparable (counted under the kind "unstable")
		return
	}
	if !goOnly(line) && normPanic(base) != normPanic(leanAns) {
		st.bad = append(st.bad, r)
	} else if goOnly(line) && strings.HasPrefix(base, "panic") {
		st.bad = append(st.bad, r)
	}
}

func truncate(s string, n int) string {
	if len(s) > n {
		return s[:n] + "…"
	}
	return s
}

// nontrivial: the case got past parsing and produced a non-null value, or is a
// deliberate error/AST observation.
func nontrivial(line, base string) bool {
	k := ansKind(base)
	switch {
	case strings.HasPrefix(line, "S") || strings.HasPrefix(line, "Q"):
		return k != "ok-null" && k != "errsyn"
	default:
		return true
	}
}

// describe renders a protocol line readably (hex fields decoded).
func describe(line string) string {
	f := strings.Fields(line)
	for i := 1; i < len(f); i++ {
		if s, err := unhexField(f[i]); err == nil && (f[0] == "C" || f[0] == "J" || ((f[0] == "S" || f[0] == "SU" || f[0] == "Q") && i == 1)) {
			f[i] = strconv.Quote(s)
		} else if len(f[i]) > 200 {
			f[i] = f[i][:200] + "…"
		}
	}
	return strings.Join(f, " ")
}

// checkAnnot applies a generator-supplied expectation (an implementation-level
// oracle that needs no model): "expect=<canon>" or "unquoted=field|reject".
func checkAnnot(o outcome, line, annot string) outcome {
	switch {
	case annot == "":
	case strings.HasPrefix(annot, "expect="):
		if o.base != "ok "+annot[len("expect="):] {
			o.flags = append(o.flags, "expect")
		}
	case annot == "unquoted=field":
		f := strings.Fields(line)
		if len(f) < 2 || o.base != "ok (Field s"+f[1]+")" {
			o.flags = append(o.flags, "unquoted")
		}
	case annot == "unquoted=reject":
		if strings.HasPrefix(o.base, "ok (Field") {
			o.flags = append(o.flags, "unquoted")
		}
	case annot == "mustfail":
		if strings.HasPrefix(o.base, "ok") {
			o.flags = append(o.flags, "swallowed")
		}
	}
	return o
}
