package main

import (
	"encoding/json"
	"strconv"
	"strings"
	"unicode/utf8"
)

func parseJSONText(s string) (interface{}, error) {
	var v interface{}
	err := json.Unmarshal([]byte(s), &v)
	return v, err
}

// Typed universes for the function streams.
var fnNums = []string{`0`, `1`, `-1`, `2`, `2`, `0.5`, `-2.5`, `3.7`, `-3.2`, `100`, `1e21`, `1e-7`}
var fnStrs = []string{`""`, `"a"`, `"b"`, `"ab"`, `"abc"`, `"ba"`, `"héllo"`, `"世界😀"`, `"1"`, `"-2.5"`, `"1e2"`, `" 1"`, `"0x10"`, `"inf"`, `"-inf"`, `"nan"`, `"Infinity"`, `"1e999"`, `"a,b"`, `"<&>"`, `"\\u003c\\u0026"`, `"x\\\\u003ey"`}
var fnArrs = []string{`[1.75,1.25,2.5,1.5,2.75]`, `[{"a":1.75,"n":0},{"a":1.25,"n":1},{"a":1.5,"n":2},{"a":1.25,"n":3}]`, `[]`, `[1]`, `[2,1]`, `[1,2,2,1]`, `[3,-1,0.5]`, `["b","a"]`, `["a","ab",""]`, `["","a"]`, `["",""]`, `["é","z","a"]`, `[1,"a"]`, `[[1],[2]]`, `[[1,2],[3]]`, `[null,1]`,
	`[{"a":2,"n":0},{"a":1,"n":1},{"a":2,"n":2},{"a":1,"n":3}]`, `[{"a":"y"},{"a":"x"},{"a":"y"}]`, `[{"a":1},{"a":"x"}]`, `[{"a":1},{}]`, `[{"a":null}]`, `[[1]]`, `[{"a":[1]}]`}
var fnObjs = []string{`{}`, `{"a":1}`, `{"a":2,"b":3}`, `{"b":4,"c":5}`, `{"a":null}`, `{"a":{"x":1}}`, `{"":0}`, `{"é":1,"a":[1]}`}
var fnRefs = []string{`&a`, `&@`, `&n`, "&`1`", "&`null`", `&a.x`, `&length(@)`, `&abs(a)`, `&to_string(@)`, `&[0]`}
var fnAny = []string{`null`, `true`, `false`}

func lit(s string) string { return "`" + s + "`" }

func poolFor(kind string) []string {
	switch kind {
	case "number":
		return fnNums
	case "string":
		return fnStrs
	case "array", "anum", "astr", "anumstr":
		return fnArrs
	case "object":
		return fnObjs
	case "arrstr":
		return append(append([]string{}, fnArrs...), fnStrs...)
	case "sao":
		return append(append(append([]string{}, fnArrs...), fnStrs...), fnObjs...)
	}
	return append(append(append(append(append([]string{}, fnAny...), fnNums[:4]...), fnStrs[:4]...), fnArrs[:6]...), fnObjs[:3]...)
}

// fn (C09): each function on well-typed tuples drawn exhaustively-ish from
// the typed universe (index-addressable), including 20-element arrays with
// equal keys for stability.
func streamFn(seed uint64, idx int) caseT {
	g := genFor(seed, "fn", idx)
	sig := fnSigs[idx%len(fnSigs)]
	k := idx / len(fnSigs)
	n := len(sig.params)
	if sig.varia {
		n = 1 + k%3
		k /= 3
	}
	args := make([]string, n)
	for i := 0; i < n; i++ {
		want := sig.params[len(sig.params)-1]
		if i < len(sig.params) {
			want = sig.params[i]
		}
		if want == "expref" {
			args[i] = fnRefs[k%len(fnRefs)]
			k /= len(fnRefs)
			continue
		}
		pool := poolFor(want)
		args[i] = lit(pool[k%len(pool)])
		k /= len(pool)
	}
	if sig.name == "to_number" && (idx/len(fnSigs))%2 == 1 {
		// strings that look like numbers to one parser or another
		args[0] = literalTok(numberish[(idx/len(fnSigs)/2)%len(numberish)])
	}
	if sig.name == "contains" && (idx/len(fnSigs))%4 == 3 {
		// array elements and needles drawn from the comparison universe (objects with null members under
		// different keys, nested empties, adjacent floats): contains uses deep equality
		u1, u2 := universe[g.r.intn(len(universe))], universe[g.r.intn(len(universe))]
		if g.r.chance(60) { // both from the containers (objects with null members under different keys, nested empties)
			first := len(universe) - 21
			u1, u2 = universe[first+g.r.intn(21)], universe[first+g.r.intn(21)]
		}
		args[0], args[1] = literalTok([]interface{}{u1, []interface{}{u1}}), literalTok(u2)
	}
	if sig.hasRef() && (idx/len(fnSigs))%5 == 4 {
		// a by-expression function inside the key expression of another one (scratch state of the outer
		// call must survive the inner call): groups of 1–6 rows, numeric or string keys, ties
		strKeys := g.r.chance(40)
		mkRows := func(m int) []interface{} {
			rows := make([]interface{}, m)
			for i := range rows {
				var k interface{} = float64(g.r.intn(4))
				if strKeys {
					k = g.r.pick([]string{"p", "q", "r", "s"})
				}
				rows[i] = map[string]interface{}{"a": k, "n": float64(g.r.intn(100)), "t": g.r.pick([]string{"x", "y", "z", "w"})}
			}
			return rows
		}
		ng := 2 + g.r.intn(5)
		groups := make([]interface{}, ng)
		for i := range groups {
			groups[i] = map[string]interface{}{"rows": mkRows(1 + g.r.intn(6)), "id": float64(i)}
		}
		inner := g.r.pick([]string{"sort_by(rows, &a)[0].n", "sort_by(rows, &t)[0].t", "max_by(rows, &n).n", "min_by(rows, &t).t", "length(sort_by(rows, &n))", "sort_by(rows, &n)[-1].a",
			"max_by(sort_by(rows, &a), &n).n", "map(&n, sort_by(rows, &t))[0]", "sum(map(&n, rows))", "sort(map(&t, rows))[0]"})
		outer := g.r.pick([]string{"sort_by(groups, &%s)[*].id", "max_by(groups, &%s).id", "min_by(groups, &%s).id", "map(&%s, groups)", "sort_by(groups, &%s)[*].rows[0].n",
			"map(&sort_by(rows, &a)[*].n, groups)", "groups[*].sort_by(rows, &t)[*].n", "sort_by(groups, &%s) | [sort_by(@, &%s)[0].id, @[0].id]"})
		e := strings.Replace(outer, "%s", inner, -1)
		return caseT{lines: []string{"S " + hexField(e) + " " + canonOf(map[string]interface{}{"groups": groups})}}
	}
	if (idx/len(fnSigs))%7 == 6 {
		// string arguments written as raw strings that are NOT valid UTF-8 (only a raw string literal can bring such
		// a string in): lone continuation bytes, truncated sequences, overlong forms, surrogates
		bad := []string{"'ab\xff'", "'\xff'", "'\xc3'", "'a\xe4\xb8'", "'\xed\xa0\x80'", "'\xc0\xaf'", "'\xf0\x9f\x98'", "'\x80\x80\x80x'", "'é\xffé'", "'\xfe\xff\xfd'"}
		for i := 0; i < n; i++ {
			want := sig.params[len(sig.params)-1]
			if i < len(sig.params) {
				want = sig.params[i]
			}
			switch want {
			case "string", "arrstr", "sao", "any":
				args[i] = bad[g.r.intn(len(bad))]
			case "astr", "anumstr":
				args[i] = "[" + bad[g.r.intn(len(bad))] + ", 'a', " + bad[g.r.intn(len(bad))] + "]"
			}
		}
	}
	doc := interface{}(nil)
	// large arrays with ties (stability of sort_by, first-extremal of max_by/min_by)
	if (sig.name == "sort_by" || sig.name == "max_by" || sig.name == "min_by" || sig.name == "sort") && g.r.chance(30) {
		m := 13 + g.r.intn(30)
		if g.r.chance(35) {
			m = sizeLadder[g.r.intn(len(sizeLadder))]
		}
		arr := make([]interface{}, m)
		strKeys := g.r.chance(40)
		for i := range arr {
			if strKeys {
				arr[i] = map[string]interface{}{"a": g.r.pick([]string{"x", "y", "z"}), "n": float64(i)}
			} else {
				arr[i] = map[string]interface{}{"a": float64(g.r.intn(3)) + 0.25*float64(g.r.intn(4)), "n": float64(i)}
			}
		}
		doc = map[string]interface{}{"big": arr}
		if sig.name == "sort" {
			args[0] = "big[*].a"
		} else {
			args[0] = "big"
			args[1] = "&a"
		}
	}
	e := sig.name + "(" + strings.Join(args, ", ") + ")"
	if sig.name == "keys" || sig.name == "values" {
		return caseT{lines: []string{"SU " + hexField(e) + " " + canonOf(doc)}}
	}
	lines := []string{"S " + hexField(e) + " " + canonOf(doc)}
	if g.r.chance(20) { // nested in an arbitrary expression
		wrap := g.r.pick([]string{"[%s, `1`]", "{k: %s}", "%s | @", "(%s)", "not_null(%s)", "to_array(%s)[0]", "[`1`][*].%s | [0]", "%s == %s",
			"`null`.%s", "nosuchfield.%s", "nosuchfield | %s", "`{}`.k.%s", "nosuchfield.k[0].%s", "[nosuchfield.%s, `null` | %s]", "`null` | @.%s"})
		lines = append(lines, "S "+hexField(strings.Replace(wrap, "%s", e, -1))+" "+canonOf(doc))
	}
	return caseT{lines: lines}
}

// The 14-value universe of the ill-typed matrix: every JSON type, empty and
// non-empty, homogeneous and mixed arrays, an expression reference and one
// with ill-typed keys.
var matrixArgs = []string{"&@", "`null`", "`true`", "`1`", "`\"a\"`", "`\"\"`", "`[]`", "`[1,2]`", "`[\"a\",\"b\"]`", "`[1,\"a\"]`", "`[{\"a\":1},{\"a\":2}]`", "`{}`", "`{\"a\":1}`", "&a", "&`null`"}
var matrixNames = func() []string {
	out := []string{}
	for _, s := range fnSigs {
		out = append(out, s.name)
	}
	return append(out, "nosuch", "lenght", "Abs")
}()

func matrixCount(maxArgs int) int {
	per := 0
	p := 1
	for n := 0; n <= maxArgs; n++ {
		per += p
		p *= len(matrixArgs)
	}
	return per * len(matrixNames)
}

func g3(k int) string { return []string{"(a)", "()", "(@, `1`)", "(&a)"}[k%4] }

// fnmatrix (C10): the full matrix name × argument count × argument tuple.
func streamFnMatrix(seed uint64, idx int) caseT {
	if idx%500 == 499 {
		// unknown names of every length up to 48 bytes (an error message that measures, pads or compares names)
		n := (idx/500)%48 + 1
		name := strings.Repeat("sort_by_descending_order_of_everything_", 2)[:n]
		e := name + g3(idx/500/48)
		return caseT{lines: []string{"S " + hexField(e) + " " + canonOf(map[string]interface{}{"a": 1.0})}}
	}
	name := matrixNames[idx%len(matrixNames)]
	k := idx / len(matrixNames)
	n, span := 0, 1
	for k >= span {
		k -= span
		n++
		span *= len(matrixArgs)
	}
	args := make([]string, n)
	for i := 0; i < n; i++ {
		args[i] = matrixArgs[k%len(matrixArgs)]
		k /= len(matrixArgs)
	}
	e := name + "(" + strings.Join(args, ", ") + ")"
	op := "S"
	if name == "keys" || name == "values" {
		op = "SU"
	}
	return caseT{lines: []string{op + " " + hexField(e) + " " + canonOf(map[string]interface{}{"a": 1.0})}}
}

// Erroring sub-expressions, one per error kind.
var errSeeds = []string{"abs(`\"a\"`)", "length(`1`)", "nosuch(@)", "abs()", "`[1,2]`[::0]", "sort_by(`[1,\"a\"]`, &@)", "max_by(`[{}]`, &a)", "merge(`1`)", "join(`1`, `[]`)", "not_null()",
	// errors that depend on the element (first / middle / last only), and a zero step on an empty array;
	// projections are parenthesised so that a prefix context (`!%s`) cannot re-associate them
	"map(&abs(@), `[\"x\",1]`)", "map(&abs(@), `[1,\"x\",2]`)", "(`[\"x\",1,2]`[*].abs(@))", "(`[1,2,\"x\"]`[?abs(@) > `0`])", "(`[[1],[\"x\"],[2]]`[].abs(@))",
	"sort_by(`[{\"a\":\"x\"},{\"a\":1},{\"a\":2}]`, &abs(a))", "max_by(`[{\"a\":\"x\"},{\"a\":1}]`, &abs(a))", "(`{\"p\":\"x\",\"q\":1}`.*.abs(@))", "`[]`[::0]",
	"(`[1,\"x\"]`[0:2].abs(@))", "[abs(`\"x\"`), `1`]", "{p: abs(`\"x\"`), q: `1`}",
	// a function applied to a null current node after a dot / index (the left side is null, the right side still runs)
	// by-expression functions whose key expression fails on a LATER element only (the first key is fine)
	"sort_by(`[3,1,\"x\",2]`, &abs(@))", "sort_by(`[{\"a\":1},{\"a\":2},{\"a\":\"x\"}]`, &abs(a))", "max_by(`[{\"a\":1},{\"a\":\"x\"}]`, &abs(a))", "min_by(`[1,2,3,\"x\",4]`, &abs(@))",
	"sort_by(`[\"b\",\"a\",1]`, &length(@))", "map(&abs(@), `[1,2,3,4,\"x\"]`)",
	"max_by(`[{\"a\":3},{\"a\":\"x\"},{\"a\":7}]`, &a)", "min_by(`[10,\"ten\"]`, &@)", "max_by(`[\"a\",1,\"b\"]`, &@)", "(`[1,null,-3]`[].abs(@))", "(`[null,null]`[].nosuch(@))", "(`[[1],null]`[].length(@))",
	"`null`.abs(@)", "`null`.nosuch(@)", "(`[]`[0].length(@))", "`{}`.k.abs(@)"}

// One-hole contexts in which the hole must be evaluated (document: errDoc).
var strictCtx = []string{"%s | `1`", "%s | 'x'", "%s | `null`", "%s | [`1`, `2`]", "[%s] | `1`", "%s | `1` | @","{k: %s, k: a}", "{k: a, k: %s}", "{k: %s, j: a, k: a}", "arr[*].{k: %s, k: a}", "[%s, %s][1]", "%s", "(%s)", "%s.a", "%s[0]", "%s[*]", "%s[]", "%s[?a]", "%s.*", "%s[1:]", "%s | a", "a | %s", "%s || a", "%s && a", "!%s",
	"%s == a", "a == %s", "%s < a", "a < %s", "nums[0] < %s", "%s >= nums[0]", "[a, %s]", "[%s]", "{k: %s}", "{k: a, j: %s}", "arr[*].[%s]", "arr[?%s]", "arr[?a == %s]",
	"arr[*].{k: %s}", "empty || %s", "arr && %s", "abs(%s)", "not_null(%s)", "not_null(a, %s)", "to_array(%s)", "length(%s)", "type(%s)", "merge(obj, %s)",
	"contains(arr, %s)", "sort_by(arr, &%s)", "map(&%s, arr)", "max_by(arr, &%s)", "map(&a, %s)", "arr[].%s", "obj.*.%s | @", "arr[0:2].%s", "to_string(%s)", "arr[*].a | %s"}

// Strict contexts whose hole is evaluated against the root document (usable as the outer layer of a nesting).
var rootStrictCtx = []string{"%s", "(%s)", "%s.a", "%s[0]", "%s[*]", "%s[]", "%s[?a]", "%s.*", "%s[1:]", "%s | a", "%s || a", "%s && a", "!%s",
	"%s == a", "a == %s", "%s < a", "a < %s", "nums[0] < %s", "%s >= nums[0]", "[a, %s]", "[%s]", "{k: %s}", "{k: a, j: %s}", "empty || %s", "arr && %s",
	"abs(%s)", "not_null(%s)", "not_null(a, %s)", "to_array(%s)", "length(%s)", "type(%s)", "merge(obj, %s)", "contains(arr, %s)", "map(&a, %s)", "to_string(%s)"}

// Contexts in which the hole is legitimately not evaluated.
var lazyCtx = []string{"[?%s]", "arr || %s", "empty && %s", "empty[*].%s", "empty[?%s]", "nosuchfield[*].%s", "a.b[].%s", "empty[0:1].%s", "map(&%s, empty)", "a.*.%s", "sort_by(empty, &%s)"}

var errDoc = mustJSON(`{"a":1,"arr":[{"a":1},{"a":2}],"nums":[1,2],"obj":{"x":{"a":1}},"empty":[],"s":"x"}`)

func errCtxCount(depth2 bool) int {
	n := len(errSeeds) * (len(strictCtx) + len(lazyCtx))
	if depth2 {
		n += len(errSeeds) * len(rootStrictCtx) * len(strictCtx)
	}
	return n
}

// errctx (C11): E inside every strict context (depth 1, then depth 2), and
// inside the lazy contexts.
func streamErrCtx(seed uint64, idx int) caseT {
	seedE := errSeeds[idx%len(errSeeds)]
	k := idx / len(errSeeds)
	fill := func(ctx, e string) string { return strings.Replace(ctx, "%s", e, -1) }
	if k < len(strictCtx) {
		return caseT{lines: []string{"S " + hexField(fill(strictCtx[k], seedE)) + " " + canonOf(errDoc) + "\tmustfail"}, note: "strict"}
	}
	k -= len(strictCtx)
	if k < len(lazyCtx) {
		return caseT{lines: []string{"S " + hexField(fill(lazyCtx[k], seedE)) + " " + canonOf(errDoc)}, note: "lazy"}
	}
	k -= len(lazyCtx)
	outer, inner := rootStrictCtx[k%len(rootStrictCtx)], strictCtx[(k/len(rootStrictCtx))%len(strictCtx)]
	// the outer hole must still be evaluated against a value for which the inner context is strict:
	// keep to outer contexts that evaluate the hole against the root document
	e := fill(outer, "("+fill(inner, seedE)+")")
	return caseT{lines: []string{"S " + hexField(e) + " " + canonOf(errDoc) + "\tmustfail"}, note: "strict2"}
}

// api (C13): operation sequences over handles, parsers and shared documents.
func streamAPI(seed uint64, idx int) caseT {
	g := genFor(seed, "api", idx)
	g.single = g.r.chance(60)
	nd := 2 + g.r.intn(3)
	var ops []string
	docs := make([]interface{}, nd)
	for i := range docs {
		docs[i] = topDoc(g)
		ops = append(ops, "d"+strconv.Itoa(i)+"."+canonOf(docs[i]))
	}
	if g.r.chance(25) {
		// keys that are not identifiers: the expression spelled like the key must not select it
		if g.single {
			// single-member documents only (the expressions of this case may iterate over objects anywhere)
			docs[0] = map[string]interface{}{g.r.pick([]string{"404", "2fa", "a-b", "a b", "", "0", "-1", "1e3", "007"}): 1.0}
		} else {
			docs[0] = map[string]interface{}{"404": 1.0, "2fa": 2.0, "a-b": 3.0, "a b": 4.0, "": 5.0, "0": 6.0, "x": map[string]interface{}{"404": 7.0}, "a": 8.0, "-1": 9.0, "1e3": 10.0}
		}
		ops[0] = "d0." + canonOf(docs[0])
	}
	special := []string{"404", "2fa", "a-b", "a b", "", "0", "x.404", "-1", "1e3", "a", "007",
		"`[3,1,2]` | [@[0], sort_by(@, &@)[0]]", "sort_by(@, &a)", "merge(`{\"r\":1}`, @)", "to_array(@)[?a]", "reverse(@)", "`[{\"k\":2},{\"k\":1}]` | [@[0].k, sort_by(@,&k)[0].k]",
		"foo[?a == 'x']", "'it\\'s", "'x\\'y'", "a.'", "\"unclosed", "`{`", "[0", "a ||", "'ok'", "`[1,2]`[::0]", "abs(@)", "merge(@, `{\"z\":9}`)", "max_by(@, &a)", "[to_array(a), map(&b, c)]"}
	mkExpr := func() string {
		if g.r.chance(35) {
			return g.r.pick(special)
		}
		g.budget = 30
		e := render(g.expr(docs[g.r.intn(nd)], 2+g.r.intn(2)), g.r.intn(3), g.r)
		if g.r.chance(15) && len(e) > 1 {
			// a truncated prefix can lose the order-insensitive consumer of a guarded unit
			// ("o.* | length(@)" -> "o.*"): cut only where no object iteration is left exposed
			if cut := e[:g.r.intn(len(e))]; g.single || !(strings.Contains(cut, "*") || strings.Contains(cut, "keys") || strings.Contains(cut, "values")) {
				e = cut
			}
		}
		return e
	}
	n := 4 + g.r.intn(20)
	for i := 0; i < n; i++ {
		h := strconv.Itoa(g.r.intn(3))
		d := strconv.Itoa(g.r.intn(nd))
		switch g.r.intn(10) {
		case 0, 1:
			ops = append(ops, "c"+h+"."+hexField(mkExpr()))
		case 2, 3, 4, 5:
			ops = append(ops, "s"+h+"."+d)
		case 6:
			ops = append(ops, "o."+hexField(mkExpr())+"."+d)
		default:
			ops = append(ops, "p"+h+"."+hexField(mkExpr()))
		}
	}
	return caseT{lines: []string{"A " + strings.Join(ops, ";")}}
}

var identAlphabet = []string{"a", "Z", "_", "0", " ", "\"", "'", "\\", "`", "/", "\b", "\f", "\n", "\r", "\t", "\x01", "\x1f", "\x7f", "\u0080", "é", "\u2028", "\u2029", "世", "😀", "\ufffd", "<", ">", "&",
	".", "[", "]", "|", "u", "n", "\\\\", "\\'", "\\`", "\\\"", "\\u", "\\n", "{", "}", ",", ":", "-", "1"}

func identString(g *gen, idx int, exhaustiveTo int) string {
	// exhaustive over short strings first, random afterwards
	n, span := 0, 1
	k := idx
	for n <= exhaustiveTo {
		if k < span {
			s := ""
			for i := 0; i < n; i++ {
				s += identAlphabet[k%len(identAlphabet)]
				k /= len(identAlphabet)
			}
			return s
		}
		k -= span
		n++
		span *= len(identAlphabet)
	}
	m := 1 + g.r.intn(40)
	s := ""
	for i := 0; i < m; i++ {
		s += g.r.pick(identAlphabet)
	}
	return s
}

func identExhaustive(to int) int {
	c, span := 0, 1
	for n := 0; n <= to; n++ {
		c += span
		span *= len(identAlphabet)
	}
	return c
}

// ident (C14): for a string s: the quoted identifier selects key s; the raw
// string denotes s; the literal of a value containing s denotes that value.
func streamIdent(seed uint64, idx int) caseT {
	g := genFor(seed, "ident", idx)
	s := identString(g, idx, 2)
	marker := "M:" + strconv.Itoa(idx)
	doc := map[string]interface{}{s: marker, "other": 1.0}
	lines := []string{"S " + hexField(jsonText(s)) + " " + canonOf(doc) + "\texpect=" + canonOf(marker)}
	if rawOK(s) {
		lines = append(lines, "S "+hexField(rawTok(s))+" null\texpect="+canonOf(s))
	}
	var v interface{}
	switch idx % 4 {
	case 0:
		v = s
	case 1:
		v = []interface{}{s, map[string]interface{}{s: []interface{}{s, 1.5, nil}}}
	case 2:
		v = map[string]interface{}{s: s, "k": g.value(2)}
	default:
		v = g.value(3)
	}
	lines = append(lines, "S "+hexField(literalTok(v))+" null\texpect="+canonOf(v))
	if rawOK(s) {
		// the three kinds of token in ONE expression, in both orders (a scanner that leaves something behind for the next
		// token — a shared scratch buffer — shows up here and nowhere else)
		q, r, l := jsonText(s), rawTok(s), literalTok(v)
		lines = append(lines, "S "+hexField("["+l+", "+r+", "+q+", "+r+", "+l+"]")+" "+canonOf(doc),
			"S "+hexField("["+q+", "+r+", "+q+"] | [@, "+r+" == "+l+"]")+" "+canonOf(doc))
	}
	return caseT{lines: lines}
}

var unqAlphabet = []string{"a", "z", "A", "Z", "_", "0", "9", "-", "\v", "é", "\u0080", "é", "`", "@", ".", "$", "ñ", "世", "Φ", "\x7f", "ÿ", "{", "[", "^"}

// unquoted (C14): a string is an unquoted identifier iff it matches
// [A-Za-z_][A-Za-z0-9_]*; exhaustive over short strings.
func streamUnquoted(seed uint64, idx int) caseT {
	if idx < 512 {
		// every byte 0..255 as the first character, and as the second after `a` (each entry of the lexer's tables once)
		s := string([]byte{byte(idx % 256)})
		if idx >= 256 {
			s = "a" + s
			if c := byte(idx % 256); c == ' ' || c == '\t' || c == '\n' || c == '\r' {
				s = "a_" // white space after an identifier is legal and not part of it
			}
		}
		doc := map[string]interface{}{s: "marker"}
		want := "reject"
		if unquotedRe.MatchString(s) {
			want = "field"
		}
		if !utf8.ValidString(s) {
			doc = map[string]interface{}{"k": "marker"}
		}
		return caseT{lines: []string{"C " + hexField(s) + "\tunquoted=" + want, "S " + hexField(s) + " " + canonOf(doc)}}
	}
	idx -= 512
	n, span := 1, len(unqAlphabet)
	k := idx
	for k >= span && n < 3 {
		k -= span
		n++
		span *= len(unqAlphabet)
	}
	s := ""
	for i := 0; i < n; i++ {
		s += unqAlphabet[k%len(unqAlphabet)]
		k /= len(unqAlphabet)
	}
	doc := map[string]interface{}{s: "marker"}
	want := "reject"
	if unquotedRe.MatchString(s) {
		want = "field"
	}
	return caseT{lines: []string{"C " + hexField(s) + "\tunquoted=" + want, "S " + hexField(s) + " " + canonOf(doc)}}
}

func unquotedCount() int { return 512 + unquotedCount0() }
func unquotedCount0() int {
	a := len(unqAlphabet)
	return a + a*a + a*a*a
}

// spelling (C03/C14): the same token sequence with different white space and
// with redundant parentheses parses to the same AST.
func streamSpelling(seed uint64, idx int) caseT {
	g := genFor(seed, "spelling", idx)
	doc := topDoc(g)
	t := g.expr(doc, 2+g.r.intn(3))
	e1 := render(t, 0, nil)
	e2 := render(t, 2, g.r)
	// redundant parentheses: around the whole expression and around atoms
	var t3 toks
	for i, x := range t {
		isAtom := x == "@" || strings.HasPrefix(x, "`") || strings.HasPrefix(x, "'")
		prevDot := i > 0 && (t[i-1] == "." || t[i-1] == "&")
		nextCall := strings.HasSuffix(x, "(")
		if isAtom && !prevDot && !nextCall && g.r.chance(50) {
			t3 = append(t3, "(", x, ")")
		} else {
			t3 = append(t3, x)
		}
	}
	if len(t) > 0 && t[0] != "&" && g.r.chance(70) {
		t3 = paren(t3)
	}
	e3 := render(t3, g.r.intn(3), g.r)
	return caseT{lines: []string{"W " + hexField(e1) + " " + hexField(e2), "W " + hexField(e1) + " " + hexField(e3),
		"S " + hexField(e1) + " " + canonOf(doc), "S " + hexField(e3) + " " + canonOf(doc)}}
}

// pipe (C15): Search(A | B, d) = Search(B, Search(A, d)).
func streamPipe(seed uint64, idx int) caseT {
	g := genFor(seed, "pipe", idx)
	g.single = true
	doc := topDoc(g)
	a := g.expr(doc, 2+g.r.intn(3))
	if g.r.chance(6) {
		// A fails on a LATER element only; B looks at the first result
		as := g.r.pick([]string{"`[1,\"x\"]`[?abs(@) > `0`]", "`[1,2,\"x\"]`[*].abs(@)", "`[[1],[\"x\"]]`[].abs(@)", "map(&abs(@), `[1,\"x\"]`)",
			"`[{\"a\":1},{\"a\":\"x\"}]`[?abs(a) > `0`].a", "`[1,\"x\"]`[0:2].abs(@)"})
		if g.r.chance(35) {
			// A fails outright; B does not look at its input at all (a literal): the pipe is an error all the same
			as = g.r.pick([]string{"`[1,2]`[::0]", "abs('x')", "nosuch(@)", "length(`1`, `2`)", "`[3,1]`[1:][::0]", "sort_by(`[1,\"a\"]`, &@)", "[abs('x')]", "{k: nosuch(@)}"})
			bs := g.r.pick([]string{"`1`", "'x'", "`null`", "[`1`, `2`]", "{k: `1`}", "`[]` | length(@)", "`1` | @"})
			return caseT{lines: []string{"P " + hexField(as) + " " + hexField(bs) + " " + canonOf(doc), "S " + hexField(as+" | "+bs) + " " + canonOf(doc)}}
		}
		bs := g.r.pick([]string{"[0]", "[:1]", "length(@)", "@[0]", "[0] | @", "not_null(@)"})
		return caseT{lines: []string{"P " + hexField(as) + " " + hexField(bs) + " " + canonOf(doc)}}
	}
	if g.r.chance(5) {
		// A is null (missing key, null member, out-of-range index, non-matching projection); B navigates and then calls a
		// function that does not map null to null, or fails on null
		as := g.r.pick([]string{"nosuchfield", "`null`", "`{\"n\":null}`.n", "`[]`[0]", "`1`[*]", "`{}`.a.b", "nosuchfield.x[2]", "`\"s\"`.a"})
		bs := g.r.pick([]string{"b.type(@)", "b.not_null(@, 'dflt')", "b.length(@)", "a.b.to_string(@)", "b.to_array(@)", "[0].type(@)", "b.abs(@)", "b.nosuch(@)", "type(@)", "b | type(@)", "b.[type(@)]",
			"b.{t: type(@)}", "b.c.not_null(@, `1`)", "*.type(@)", "b || type(@)", "b[0].to_string(@)"})
		return caseT{lines: []string{"P " + hexField(as) + " " + hexField(bs) + " " + canonOf(doc), "S " + hexField(as+" | "+bs) + " " + canonOf(doc)}}
	}
	if g.r.chance(6) {
		// A is a projection that DROPS nulls; B is a projection whose right-hand side does not map null to null
		as := g.r.pick([]string{"`[{\"a\":1},{\"b\":2},{\"a\":3}]`[*].a", "`[{\"a\":\"x\"},{},{\"a\":null},{\"a\":[]}]`[*].a", "`[[1],[],[null,2]]`[*][0]",
			"`[{\"a\":1},{\"b\":2}]`[?@].a", "`[{\"a\":{\"b\":1}},{\"a\":{}}]`[*].a.b", "`{\"k\":{\"a\":1}}`.*.b", "`[[{\"a\":1}],[{\"b\":1}]]`[].a", "`[{\"a\":1},{\"b\":2},{\"a\":3}]`[0:3].a"})
		bs := g.r.pick([]string{"[*].type(@)", "[*].not_null(@, `\"d\"`)", "[*].to_string(@)", "[].type(@)", "[?type(@) == 'null']", "[*].length(@)", "[*].[@]", "[*].{k: @}", "[*].(@ == `null`)",
			"[*].to_array(@)", "[::1].type(@)", "[?@ == `null`]", "length(@)", "[*] | length(@)"})
		return caseT{lines: []string{"P " + hexField(as) + " " + hexField(bs) + " " + canonOf(doc), "S " + hexField(as+" | "+bs) + " " + canonOf(doc)}}
	}
	av, ok := evalSafe(a.text(), doc)
	if !ok {
		av = nil
	}
	g.budget = 30
	var bt toks
	if g.r.chance(30) {
		bt = toks{g.r.pick([]string{"`1`", "'x'", "not_null(@, `\"d\"`)", "length(@)", "type(@)", "@", "[@, @]", "to_array(@)", "a", "[0]", "[*]", "[]", "*", "{k: @}", "!@", "@ == `null`"})}
	} else {
		bt = g.expr(av, 2+g.r.intn(2))
	}
	return caseT{lines: []string{"P " + hexField(render(a, g.r.intn(3), g.r)) + " " + hexField(render(bt, g.r.intn(3), g.r)) + " " + canonOf(doc)}}
}

var rootCtx = []string{"`1` || length(%s)", "`null` && abs(%s)", "`[]` && keys(%s)", "'x' || nosuch(%s)", "`[1]`[?`false`].abs(%s)", "`false` && max_by(%s, &@)", "`0` || sort(%s)", "[`1` || abs(%s), %s]",
	"%s", "[%s, @]", "{k: %s}", "%s || a", "a && %s", "!%s", "%s == a", "a != %s", "%s | @", "(%s).a", "%s[0]", "%s[*]", "%s[]", "%s.*", "%s[?@]", "not_null(%s, a)", "to_array(%s)", "type(%s)",
	"[to_string(%s), %s]", "merge(`{}`, %s)", "%s[1:]", "sort_by(%s, &a)", "[%s, sort_by(%s, &k)]", "map(&@, %s)", "length(%s)", "contains(%s, a)", "%s < `3`", "reverse(%s)", "[%s][0]"}

// subst (C15): replacing a sub-expression evaluated against the root by the
// literal of its value does not change the result.
func streamSubst(seed uint64, idx int) caseT {
	g := genFor(seed, "subst", idx)
	g.single = true // literals of objects must iterate identically
	if g.r.chance(25) {
		// aliasing: the hole's value is used twice, once through an operation that must not modify it
		g.single = false
		doc := map[string]interface{}{"items": g.objArray(), "nums": g.literalOfType("anum"), "o": map[string]interface{}{"a": 1.0}}
		ctx := g.r.pick([]string{"[%s, sort_by(%s, &a)]", "[sort_by(%s, &a), %s]", "[%s, reverse(%s)]", "[%s[0], sort_by(%s, &a)[0]]", "[%s, merge(o, `{\"z\":1}`), o]",
			"[%s, to_array(%s)[?a]]", "[%s, map(&a, %s)]", "{x: %s, y: sort_by(%s, &n)}", "[%s, max_by(%s, &a), min_by(%s, &a)]", "[%s, sort_by(%s, &a), %s]", "[nums, sort(nums), nums]"})
		es := "items"
		parts := strings.SplitN(ctx, "%s", 2)
		if len(parts) < 2 {
			parts = []string{"[", ", nums, sort(nums)]"}
			es = "nums"
		}
		return caseT{lines: []string{"R " + hexField(parts[0]) + " " + hexField(es) + " " + hexField(strings.Replace(parts[1], "%s", es, -1)) + " " + canonOf(doc)}}
	}
	doc := topDoc(g)
	ctx := g.r.pick(rootCtx)
	e := g.expr(doc, 1+g.r.intn(3))
	if g.r.chance(50) {
		e = g.path(doc, 1+g.r.intn(3))
	}
	es := "(" + render(e, 1, g.r) + ")"
	parts := strings.SplitN(ctx, "%s", 2)
	pre, suf := parts[0], strings.Replace(parts[1], "%s", es, -1)
	return caseT{lines: []string{"R " + hexField(pre) + " " + hexField(es) + " " + hexField(suf) + " " + canonOf(doc)}}
}

var numberish = []string{"inf", "-inf", "+inf", "Inf", "infinity", "-Infinity", "nan", "NaN", "1e999", "-1e999", "1e308", "1e309", "0x10", "0x1p-2", "0x1p1024", "1_000", "1e", "e1", ".5", "5.", "+1", "-", "", " 1", "1 ",
	"1.5", "-0", "0", "00", "1e-400", "9007199254740993", "0.1", "1E5", "١", "1,5", "true", "null", "--1", "1e+2", "0b101", "0o17", "1.7976931348623157e308", "1.7976931348623159e308", "4.9e-324", "2.4e-324"}

// jsonish (C16): results that could leave JSON: to_number on special
// strings, functions on empty inputs, nested empties.
func streamJSONish(seed uint64, idx int) caseT {
	g := genFor(seed, "jsonish", idx)
	if idx >= len(numberish)*3 && idx < len(numberish)*4 {
		// the text itself as a backtick literal: it is JSON or the expression does not compile
		s := strings.Replace(numberish[idx%len(numberish)], "`", "", -1)
		return caseT{lines: []string{"C " + hexField("`"+s+"`"), "S " + hexField("[`"+s+"`, `1`]") + " null"}}
	}
	if idx < len(numberish)*3 {
		s := numberish[idx%len(numberish)]
		var e string
		switch idx / len(numberish) {
		case 0:
			e = "to_number(" + literalTok(s) + ")"
		case 1:
			e = "a[].to_number(@)"
		default:
			e = "[to_number(" + literalTok(s) + "), to_string(to_number(" + literalTok(s) + "))]"
		}
		return caseT{lines: []string{"S " + hexField(e) + " " + canonOf(map[string]interface{}{"a": []interface{}{"3", s}})}}
	}
	empties := []string{"`[1,\n2]`", "`{\n  \"a\": 1,\n  \"b\": [\n    1\n  ]\n}`", "` 1 `", "`\t[ ]\r\n`", "`\"a\\nb\"`", "`[1,\n2]` | [1]", "[?@ == `{\n\"a\":\n1}`]", "avg(`[]`)", "sum(`[]`)", "max(`[]`)", "min(`[]`)", "sort(`[]`)", "sort_by(`[]`, &a)", "max_by(`[]`, &a)", "min_by(`[]`, &a)", "map(&a, `[]`)", "reverse(`[]`)", "reverse('')", "join('', `[]`)",
		"keys(`{}`)", "values(`{}`)", "merge(`{}`)", "merge(`{}`, `{}`)", "to_array(`[]`)", "to_array(`null`)", "not_null(`null`)", "`[]`[*]", "`[]`[]", "`[]`[?@]", "`[]`[:]", "`{}`.*", "`{}`.{a: @}", "[a, b][?@]",
		"`[[]]`[]", "empty[*].a", "empty[].a", "empty[::2]", "[]", "[*]", "[?a]", "{a: empty}", "[empty]", "to_array(empty)", "[to_array(a), map(&b, c)]", "to_array(a)", "avg(empty)", "empty | avg(@)"}
	e := g.r.pick(empties)
	if g.r.chance(30) {
		e = "[" + e + ", " + g.r.pick(empties) + "]"
	}
	docs := []string{`{"empty":[],"a":1,"c":[{"b":10},{"b":20}]}`, `[]`, `{}`, `null`, `{"empty":[],"a":[],"b":{}}`}
	return caseT{lines: []string{"S " + hexField(e) + " " + canonOf(mustJSON(g.r.pick(docs)))}}
}

// jsoncodec: validates the model's JSON decoder/encoder against encoding/json.
func streamJSONCodec(seed uint64, idx int) caseT {
	g := genFor(seed, "jsoncodec", idx)
	v := g.value(3)
	if g.r.chance(30) {
		v = identString(g, 1<<30, 0)
	}
	text := jsonText(v)
	lines := []string{"E " + canonOf(v), "I " + canonOf(v), "J " + hexField(text)}
	// malformed / unusual JSON text
	bs := []byte(text)
	if len(bs) > 0 {
		j := g.r.intn(len(bs))
		switch g.r.intn(5) {
		case 0:
			bs = append(bs[:j:j], bs[j+1:]...)
		case 1:
			bs = append(bs[:j:j], append([]byte(g.r.pick([]string{" ", "\n", ",", "\"", "\\", "0", "1e5", "-", ".", "\\u00e9", "\\ud83d\\ude00", "\\ud800", "\\udc00x", "\xff", "tru", "[", "{", "}", "]", ":"})), bs[j:]...)...)
		case 2:
			bs[j] = byte(g.r.intn(256))
		case 3:
			bs = append([]byte(g.r.pick([]string{" ", "\t\n", "[", "{\"a\":", "\xef\xbb\xbf"})), bs...)
		default:
			bs = append(bs, []byte(g.r.pick([]string{" ", "\n", "]", "x", ",", "1", "{}"}))...)
		}
	}
	lines = append(lines, "J "+hexField(string(bs)))
	return caseT{lines: lines}
}

// cli (C19): (expression, input text) pairs through both input channels.
func streamCLI(seed uint64, idx int) caseT {
	g := genFor(seed, "cli", idx)
	g.single = true
	doc := topDoc(g)
	expr := render(g.expr(doc, 1+g.r.intn(3)), g.r.intn(2), g.r)
	if strings.HasPrefix(expr, "-") {
		expr = "@"
	}
	if g.r.chance(20) {
		expr = g.r.pick([]string{"a.", "[0", "abs(a)", "nosuchfn(a)", "length(a, a)", "`{`", "a ||", "'x", "\"a", "sort_by(@, &a)", "avg(`[]`)", "to_number('inf')", "a[::0]", "@", "a",
			// a function applied after a dot to a null left side; raw control characters inside a quoted identifier (invalid)
			"nosuchfield.type(@)", "a.nosuchfield.not_null(@, `1`)", "nosuchfield.abs(@)", "nosuchfield.to_array(@)", "\"a\tb\"", "\"a\nb\"", "a.\"x\x01y\"", "{\"k\x02\": a}",
			// calls that are never evaluated: still a valid expression, the value is printed
			"`1` || nosuchfn(@)", "`null` && length(@, @)", "`[]`[*].nosuchfn(@)", "`[]`[?nosuchfn(@)]", "'x' || abs()", "[`1` || abs('s'), `2`]", "`{}`.*.nosuchfn(@)"})
	}
	input := jsonText(doc)
	switch g.r.intn(12) {
	case 0:
		input = input[:g.r.intn(len(input)+1)]
	case 1:
		input += g.r.pick([]string{" trailing garbage", "]", "{}", " 1", "\n\n", " "})
	case 2:
		input = g.r.pick([]string{"", " ", "nul", "{\"a\":1e999}", "[1,]", "{\"a\":\"str\"}", "\xff", "1e400", "{\"a\":1}{\"a\":2}", "[1,2,3]]", "\"\\ud800\"", "-0", "123456789012345678901234567890"})
	case 3:
		input = " \n" + input + "\n"
	}
	if g.r.chance(8) {
		// characters that Go's strings/bytes.TrimSpace or unicode.IsSpace treat as white space but JSON does not
		ws := g.r.pick([]string{"\v", "\f", "\u0085", "\u00a0", "\u2028", "\u2029", "\u3000", "\u1680", "\u2003", "\ufeff", "\x00", "\x1c", "\x1f"})
		if g.r.chance(50) {
			input = ws + jsonText(doc)
		} else {
			input = jsonText(doc) + ws
		}
	}
	if idx%150 == 5 {
		// an input larger than any plausible buffer or read limit (5–9 MiB), valid JSON with the interesting part at the END
		// (line kind XB: the worker builds the input from its size; judged on the implementation alone)
		n := 5<<20 + g.r.intn(4<<20)
		if g.r.chance(35) {
			n = 17<<20 + g.r.intn(16<<20)
		}
		expr = g.r.pick([]string{"a", "b[2]", "[a, b]", "length(pad) > `100`"})
		return caseT{lines: []string{"XB " + g.r.pick([]string{"s", "f"}) + " " + hexField(expr) + " " + strconv.Itoa(n)}}
	}
	mode := g.r.pick([]string{"s", "f", "s", "f", "s", "f", "m", "a0", "a2"})
	if idx%25 == 3 {
		// integers of 16 and more digits in the input: the document the library sees holds float64 values, whatever the decoder is
		// configured to do, and everything downstream (comparators, functions, the printed form) starts from that
		input = g.r.pick([]string{"{\"id\":1234567890123456789,\"a\":[9007199254740993,12345678901234567890123,1.5],\"b\":-9223372036854775809}", "[18446744073709551616,9007199254740993]", "1234567890123456789", "{\"id\":100000000000000000000}"})
		expr = g.r.pick([]string{"@", "id", "id > `100`", "id == `1234567890123456789`", "to_string(id)", "type(id)", "abs(id)", "sum(a)", "a[?@ > `1`]", "max_by(a, &@)", "to_number(id)", "sort(a)", "[0]", "@[?@ > `1`]", "type(@)", "to_string(@)", "b < `0`", "[id, b]", "{x: id}", "a[0] == `9007199254740992`", "avg(a)", "not_null(id)", "to_array(id)[0]"})
		mode = g.r.pick([]string{"s", "f"})
	}
	if idx%40 == 9 {
		// standard input is the null device (not a pipe): empty input, nothing may be printed (line kind XD, implementation only)
		return caseT{lines: []string{"XD " + hexField(expr)}}
	}
	return caseT{lines: []string{"X " + mode + " " + hexField(expr) + " " + hexField(input)}}
}

// fnseq (C10): the same function called several times within one Search (and
// hence one interpreter / function table) on arguments of different types.
func streamFnSeq(seed uint64, idx int) caseT {
	g := genFor(seed, "fnseq", idx)
	sig := fnSigs[idx%len(fnSigs)]
	n := 2 + g.r.intn(3)
	arr := make([]interface{}, n)
	pool := []string{"`null`", "`true`", "`1`", "`\"a\"`", "`[]`", "`[1,2]`", "`[\"a\",\"b\"]`", "`[1,\"a\"]`", "`[{\"a\":1},{\"a\":2}]`", "`{}`", "`{\"a\":1}`", "`[2,1]`", "`[[1,2],[1,\"a\"]]`", "`\"\"`", "`2.5`",
		// by-expression keys that are containers (equal ones, after a number or string key) or booleans / nulls
		"`[{\"a\":1},{\"a\":\"x\"},{\"a\":3},{\"a\":2}]`", "`[{\"a\":\"p\"},{\"a\":1},{\"a\":\"z\"},{\"a\":\"b\"}]`", "`[{\"a\":3},{\"a\":\"x\"},{\"a\":7}]`", "`{\"b\":2}`", "`{\"a\":3,\"c\":4}`",
		"`[{\"a\":1},{\"a\":[0]},{\"a\":[0]}]`", "`[{\"a\":\"x\"},{\"a\":{}},{\"a\":{}}]`", "`[{\"a\":1},{\"a\":null},{\"a\":null}]`", "`[{\"a\":2},{\"a\":1},{\"a\":true},{\"a\":true}]`", "`[1,\"a\",\"a\"]`"}
	for i := range arr {
		arr[i] = mustJSON(strings.Trim(pool[g.r.intn(len(pool))], "`"))
	}
	second := ""
	if len(sig.params) > 1 || sig.varia {
		if len(sig.params) > 1 && sig.params[1] == "expref" {
			second = ", " + g.r.pick([]string{"&a", "&a", "&@", "&a.b", "&[a][0]"})
		} else {
			second = ", " + pool[g.r.intn(len(pool))]
		}
	}
	call := sig.name + "(@" + second + ")"
	if sig.name == "merge" && g.r.chance(50) {
		// an empty (or small) literal object first: it lives in the AST and must not collect what later calls merge into it
		first := g.r.pick([]string{"`{}`", "`{}`", "`{\"z\":0}`", "{}"})
		if first == "{}" {
			first = "`{}`"
		}
		e := g.r.pick([]string{"[*].merge(" + first + ", @)", "[merge(" + first + ", @[0]), merge(" + first + ", @[1]), merge(" + first + ", @[0])]", "map(&merge(" + first + ", @, " + first + "), @)"})
		return caseT{lines: []string{"S " + hexField(e) + " " + canonOf([]interface{}{map[string]interface{}{"a": 1.0}, map[string]interface{}{"b": 2.0}, map[string]interface{}{"a": 3.0}})}}
	}
	if sig.varia && g.r.chance(60) {
		// variadic functions: different argument counts in one Search, the longer call first or last
		k := 1 + g.r.intn(4)
		long := sig.name + "(@" + strings.Repeat(", @", k) + ")"
		short := sig.name + "(@)"
		e := g.r.pick([]string{"[*].[" + long + ", " + short + "]", "[*].[" + short + ", " + long + ", " + short + "]", "[" + strings.Replace(long, "@", "@[0]", -1) + ", " + strings.Replace(short, "@", "@[1]", -1) + ", " + strings.Replace(call, "@", "@[0]", 1) + "]"})
		return caseT{lines: []string{"S " + hexField(e) + " " + canonOf(arr)}}
	}
	if len(sig.params) > 0 && sig.params[0] == "expref" {
		call = sig.name + "(&a, @)"
	}
	var e string
	switch g.r.intn(4) {
	case 0:
		e = "[*]." + call
	case 1:
		e = "map(&" + call + ", @)"
	case 2:
		e = "[?" + call + "]"
	default:
		parts := []string{}
		for i := range arr {
			parts = append(parts, strings.Replace(call, "@", "@["+strconv.Itoa(i)+"]", 1))
		}
		e = "[" + strings.Join(parts, ", ") + "]"
	}
	op := "S"
	if sig.name == "keys" || sig.name == "values" {
		op = "SU"
		e = "[*]." + call + "[]"
	}
	return caseT{lines: []string{op + " " + hexField(e) + " " + canonOf(arr)}}
}

func init() { streamTable["fnseq"] = streamFnSeq }
