package main

// lexprobe: derive the four lexer tables of the model (identifier start / trailing
// sets, single-character tokens, white space) from the BEHAVIOUR of the library, by
// compiling a handful of template expressions for EVERY Unicode scalar value (and for
// every invalid byte).  The domain is finite, so this is an exhaustive derivation, not
// a sample.  It is the fallback of tools/extract when the tables are no longer written
// as the literals it understands (a harmless rewrite into predicates or switches).
//
// A code point c is
//   identifier start   iff  Compile(c)            = Field "c"
//   identifier trailing iff Compile("a"+c)        = Field "ac"
//   white space        iff  Compile(c+"a")        = Field "a"
//   token T            iff  the template of T with its token replaced by c compiles to
//                           the AST of the template as written ("a.b", "*", "[a,b]",
//                           "{a:b}", "[a]", "(a)", "@")
// (the expected ASTs are obtained by compiling the templates themselves, so nothing here
// depends on how the dump is spelled).  Anything the table format cannot express (an
// identifier character at or above U+0080, an identifier start below U+0040) is an error.

import (
	"encoding/hex"
	"fmt"
	"os"
	"runtime"
	"sort"
	"strings"
	"sync"

	jmespath "github.com/jmespath/go-jmespath"
)

func lpDump(expr string) (s string, ok bool) {
	defer func() {
		if recover() != nil {
			s, ok = "", false
		}
	}()
	jp, err := jmespath.Compile(expr)
	if err != nil || jp == nil {
		return "", false
	}
	return jmespath.VerifDumpAST(jmespath.VerifCompiledAST(jp)), true
}

type lpTemplate struct {
	tok      string // Lean token name
	pre, suf string
	written  string // the token as written in the reference spelling
}

var lpTemplates = []lpTemplate{
	{"dot", "a", "b", "."}, {"star", "", "", "*"}, {"comma", "[a", "b]", ","}, {"colon", "{a", "b}", ":"},
	{"lbrace", "", "a:b}", "{"}, {"rbrace", "{a:b", "", "}"}, {"rbracket", "[a", "", "]"},
	{"lparen", "", "a)", "("}, {"rparen", "(a", "", ")"}, {"current", "", "", "@"},
}

type lpClass struct {
	start, trail, white bool
	tok                 string
}

func lexProbeMain() int {
	fieldA, ok := lpDump("a")
	if !ok || !strings.Contains(fieldA, "61") {
		fmt.Fprintln(os.Stderr, "lexprobe: cannot calibrate: Compile(\"a\") does not give a field node")
		return 3
	}
	field := func(name string) string { return strings.Replace(fieldA, "61", hex.EncodeToString([]byte(name)), 1) }
	want := make([]string, len(lpTemplates))
	for i, t := range lpTemplates {
		want[i], _ = lpDump(t.pre + t.written + t.suf) // "" if the reference spelling itself fails: then no code point qualifies
	}
	classify := func(c string) lpClass {
		var k lpClass
		if d, ok := lpDump(c); ok && d == field(c) {
			k.start = true
		}
		if d, ok := lpDump("a" + c); ok && d == field("a"+c) {
			k.trail = true
		}
		if d, ok := lpDump(c + "a"); ok && d == fieldA {
			k.white = true
		}
		for i, t := range lpTemplates {
			if want[i] == "" {
				continue
			}
			if d, ok := lpDump(t.pre + c + t.suf); ok && d == want[i] {
				if k.tok != "" && k.tok != t.tok {
					k.tok = k.tok + "+" + t.tok
				} else {
					k.tok = t.tok
				}
			}
		}
		return k
	}
	const maxRune = 0x10FFFF
	res := make(map[int]lpClass)
	var mu sync.Mutex
	var wg sync.WaitGroup
	nw := runtime.NumCPU()
	for w := 0; w < nw; w++ {
		wg.Add(1)
		go func(w int) {
			defer wg.Done()
			local := map[int]lpClass{}
			for r := w; r <= maxRune; r += nw {
				if r >= 0xD800 && r <= 0xDFFF {
					continue
				}
				k := classify(string(rune(r)))
				if k.start || k.trail || k.white || k.tok != "" {
					local[r] = k
				}
			}
			mu.Lock()
			for r, k := range local {
				res[r] = k
			}
			mu.Unlock()
		}(w)
	}
	wg.Wait()
	// invalid UTF-8: every byte that cannot start a sequence, alone, decodes to U+FFFD (width 1)
	for b := 0x80; b <= 0xFF; b++ {
		k := classify(string([]byte{byte(b)}))
		if k.start || k.trail || k.white || k.tok != "" {
			fmt.Fprintf(os.Stderr, "lexprobe: the invalid byte 0x%02X is read as %+v\n", b, k)
			return 3
		}
	}
	var cps []int
	for r := range res {
		cps = append(cps, r)
	}
	sort.Ints(cps)
	var startBits uint64
	var trail [2]uint64
	var basic, white []string
	for _, r := range cps {
		k := res[r]
		if strings.Contains(k.tok, "+") {
			fmt.Fprintf(os.Stderr, "lexprobe: U+%04X is read as more than one token (%s)\n", r, k.tok)
			return 3
		}
		if k.start {
			if r < 64 || r > 127 {
				fmt.Fprintf(os.Stderr, "lexprobe: U+%04X starts an identifier; outside the range a 64-bit start set over U+0040..U+007F can express\n", r)
				return 3
			}
			startBits |= 1 << uint(r-64)
		}
		if k.trail {
			if r > 127 {
				fmt.Fprintf(os.Stderr, "lexprobe: U+%04X continues an identifier; outside the range a 128-bit set can express\n", r)
				return 3
			}
			trail[r/64] |= 1 << uint(r%64)
		}
		if k.tok != "" && !k.start {
			basic = append(basic, fmt.Sprintf("(%d, %s)", r, k.tok))
		}
		if k.white {
			white = append(white, fmt.Sprint(r))
		}
	}
	fmt.Printf("def identifierStartBits : Nat := %d\n", startBits)
	fmt.Printf("def identifierTrailingBits : List Nat := [%d, %d]\n", trail[0], trail[1])
	fmt.Printf("def basicTokens : List (Nat × TokType) := [%s]\n", strings.Join(basic, ", "))
	fmt.Printf("def whiteSpace : List Nat := [%s]\n", strings.Join(white, ", "))
	return 0
}
