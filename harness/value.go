package main

// Canonical value text (same form as jmespath.VerifCanon) -> Go value.

import (
	"encoding/hex"
	"errors"
	"math"
	"sort"
	"strconv"
	"strings"
)

type canonParser struct {
	s string
	i int
}

func parseCanon(s string) (interface{}, error) {
	p := &canonParser{s: s}
	v, err := p.value()
	if err != nil {
		return nil, err
	}
	if p.i != len(p.s) {
		return nil, errors.New("trailing text in canonical value")
	}
	return v, nil
}

func (p *canonParser) hexRun() string {
	st := p.i
	for p.i < len(p.s) {
		c := p.s[p.i]
		if (c >= '0' && c <= '9') || (c >= 'a' && c <= 'f') {
			p.i++
		} else {
			break
		}
	}
	return p.s[st:p.i]
}

func (p *canonParser) value() (interface{}, error) {
	rest := p.s[p.i:]
	switch {
	case strings.HasPrefix(rest, "null"):
		p.i += 4
		return nil, nil
	case strings.HasPrefix(rest, "true"):
		p.i += 4
		return true, nil
	case strings.HasPrefix(rest, "false"):
		p.i += 5
		return false, nil
	case strings.HasPrefix(rest, "n"):
		p.i++
		h := p.hexRun()
		u, err := strconv.ParseUint(h, 16, 64)
		if err != nil {
			return nil, err
		}
		return math.Float64frombits(u), nil
	case strings.HasPrefix(rest, "s"):
		p.i++
		h := p.hexRun()
		b, err := hex.DecodeString(h)
		if err != nil {
			return nil, err
		}
		return string(b), nil
	case strings.HasPrefix(rest, "["):
		p.i++
		out := []interface{}{}
		if strings.HasPrefix(p.s[p.i:], "]") {
			p.i++
			return out, nil
		}
		for {
			v, err := p.value()
			if err != nil {
				return nil, err
			}
			out = append(out, v)
			if p.i < len(p.s) && p.s[p.i] == ',' {
				p.i++
				continue
			}
			if p.i < len(p.s) && p.s[p.i] == ']' {
				p.i++
				return out, nil
			}
			return nil, errors.New("bad array")
		}
	case strings.HasPrefix(rest, "{"):
		p.i++
		out := map[string]interface{}{}
		if strings.HasPrefix(p.s[p.i:], "}") {
			p.i++
			return out, nil
		}
		for {
			if p.i >= len(p.s) || p.s[p.i] != 's' {
				return nil, errors.New("bad key")
			}
			p.i++
			h := p.hexRun()
			kb, err := hex.DecodeString(h)
			if err != nil {
				return nil, err
			}
			if p.i >= len(p.s) || p.s[p.i] != ':' {
				return nil, errors.New("bad object")
			}
			p.i++
			v, err := p.value()
			if err != nil {
				return nil, err
			}
			out[string(kb)] = v
			if p.i < len(p.s) && p.s[p.i] == ',' {
				p.i++
				continue
			}
			if p.i < len(p.s) && p.s[p.i] == '}' {
				p.i++
				return out, nil
			}
			return nil, errors.New("bad object")
		}
	}
	return nil, errors.New("bad canonical value")
}

func hexField(s string) string {
	if s == "" {
		return "-"
	}
	return hex.EncodeToString([]byte(s))
}

func unhexField(s string) (string, error) {
	if s == "-" {
		return "", nil
	}
	b, err := hex.DecodeString(s)
	return string(b), err
}

// sortTopLevel renders "ok [a,b,c]" with the top-level array elements sorted
// (for order-insensitive comparison of object-iteration results).
func sortTopLevel(ans string) string {
	if !strings.HasPrefix(ans, "ok [") || !strings.HasSuffix(ans, "]") {
		return ans
	}
	body := ans[4 : len(ans)-1]
	if body == "" {
		return ans
	}
	var parts []string
	depth, st := 0, 0
	for i := 0; i < len(body); i++ {
		switch body[i] {
		case '[', '{':
			depth++
		case ']', '}':
			depth--
		case ',':
			if depth == 0 {
				parts = append(parts, body[st:i])
				st = i + 1
			}
		}
	}
	parts = append(parts, body[st:])
	sort.Strings(parts)
	return "ok [" + strings.Join(parts, ",") + "]"
}

func deepCopy(v interface{}) interface{} {
	switch t := v.(type) {
	case []interface{}:
		out := make([]interface{}, len(t))
		for i, e := range t {
			out[i] = deepCopy(e)
		}
		return out
	case map[string]interface{}:
		out := make(map[string]interface{}, len(t))
		for k, e := range t {
			out[k] = deepCopy(e)
		}
		return out
	}
	return v
}
