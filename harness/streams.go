package main

// Streams: deterministic, index-addressable case generators.  A case is a
// list of protocol lines.

import (
	"strings"
)

type caseT struct {
	lines []string
	note  string
}

func searchLine(g *gen, expr string, doc interface{}) string {
	op := "S"
	return op + " " + hexField(expr) + " " + canonOf(doc)
}

func topDoc(g *gen) interface{} {
	switch k := g.r.intn(100); {
	case k < 55:
		m := g.object(3)
		for len(m) < 2 && !g.single {
			m[g.r.pick(simpleKeys)] = g.value(2)
		}
		return m
	case k < 85:
		return g.array(3)
	default:
		return g.value(2)
	}
}

// streamExpr: general type-directed expressions over random documents.
func streamExpr(seed uint64, idx int) caseT {
	r := mix(seed, "expr", idx)
	g := &gen{r: r, budget: 40, single: r.chance(30)}
	doc := topDoc(g)
	g.doc = doc
	t := g.expr(doc, 2+r.intn(3))
	expr := render(t, r.intn(3), r)
	return caseT{lines: []string{"C " + hexField(expr), searchLine(g, expr, doc)}}
}

func genCase(stream string, seed uint64, idx int) caseT {
	switch stream {
	case "expr":
		return streamExpr(seed, idx)
	}
	if f, ok := streamTable[stream]; ok {
		return f(seed, idx)
	}
	return caseT{}
}

var streamTable = map[string]func(uint64, int) caseT{}

func joinLines(c caseT) string { return strings.Join(c.lines, "\n") }
