package main

// Law-style requests (pipe composition, substitution, white space / redundant
// parentheses), the slice oracle and the command-line tool.

import (
	"bytes"
	"encoding/json"
	"io/ioutil"
	"os"
	"os/exec"
	"path/filepath"
	"strconv"
	"strings"

	jmespath "github.com/jmespath/go-jmespath"
)

func searchOutcome(expr string, doc interface{}) (string, interface{}, bool) {
	var res interface{}
	var err error
	p, _ := safely(func() { res, err = jmespath.Search(expr, doc) })
	return searchBase(res, err, p), res, !p && err == nil
}

func sameOutcome(a, b string) bool {
	ea, eb := strings.HasPrefix(a, "err"), strings.HasPrefix(b, "err")
	if ea || eb {
		return ea && eb
	}
	return a == b
}

func doPipeLaw(a, b, docText string) outcome {
	doc, err := parseCanon(docText)
	if err != nil {
		return outcome{base: "bad-request"}
	}
	whole, _, _ := searchOutcome(a+" | "+b, doc)
	first, v, ok := searchOutcome(a, doc)
	split := first
	if ok {
		split, _, _ = searchOutcome(b, v)
	}
	o := outcome{base: whole + " // " + split}
	if !sameOutcome(whole, split) {
		o.flags = append(o.flags, "pipelaw")
	}
	return o
}

func doSubst(pre, e, suf, docText string) outcome {
	doc, err := parseCanon(docText)
	if err != nil {
		return outcome{base: "bad-request"}
	}
	hole, v, ok := searchOutcome(e, doc)
	if !ok {
		return outcome{base: "hole " + hole}
	}
	lit := "`" + strings.Replace(jsonText(v), "`", "\\`", -1) + "`"
	r1, _, _ := searchOutcome(pre+e+suf, doc)
	r2, _, _ := searchOutcome(pre+lit+suf, doc)
	o := outcome{base: r1 + " // " + r2}
	if validStrings(v) && !sameOutcome(r1, r2) {
		o.flags = append(o.flags, "subst")
	}
	return o
}

func compileBase(expr string) string {
	var jp *jmespath.JMESPath
	var err error
	if p, _ := safely(func() { jp, err = jmespath.Compile(expr) }); p {
		return "panic"
	}
	if err != nil {
		return errBase(err)
	}
	return "ok " + jmespath.VerifDumpAST(jmespath.VerifCompiledAST(jp))
}

func doSameParse(e1, e2 string) outcome {
	r1, r2 := compileBase(e1), compileBase(e2)
	o := outcome{base: r1 + " // " + r2}
	if !sameOutcome(r1, r2) {
		o.flags = append(o.flags, "spelling")
	}
	return o
}

var cliTmp string

func jpgoPath() string {
	if v := os.Getenv("VERIF_JPGO"); v != "" {
		return v
	}
	return "/verif/harness/bin/jpgo"
}

// bigCLIInput: valid JSON of a little more than n bytes with the values the expressions look at at the END.
func bigCLIInput(n int) string {
	return "{\"pad\":\"" + strings.Repeat("x", n) + "\",\"a\":12345,\"b\":[1,2,3]}"
}

func doCLI(mode, expr, input string) outcome {
	if cliTmp == "" {
		d, err := ioutil.TempDir("", "verif-cli-")
		if err != nil {
			return outcome{base: "bad-request"}
		}
		cliTmp = d
	}
	var args []string
	var stdin []byte
	switch mode {
	case "s":
		args, stdin = []string{expr}, []byte(input)
	case "f":
		f := filepath.Join(cliTmp, "in.json")
		ioutil.WriteFile(f, []byte(input), 0600)
		args = []string{"-input", f, expr}
	case "m":
		args = []string{"-input", filepath.Join(cliTmp, "does-not-exist.json"), expr}
	case "d":
		// no -input and standard input that is NOT a pipe: the null device (what cron, exec.Command with a nil Stdin,
		// `< /dev/null` give) — empty input, hence invalid JSON
		args, stdin = []string{expr}, nil
		input = ""
	case "a0":
		args, stdin = []string{}, []byte(input)
	default:
		args, stdin = []string{expr, expr}, []byte(input)
	}
	cmd := exec.Command(jpgoPath(), args...)
	if mode != "d" {
		cmd.Stdin = bytes.NewReader(stdin)
	}
	var out bytes.Buffer
	cmd.Stdout = &out
	err := cmd.Run()
	code := 0
	if err != nil {
		if ee, ok := err.(*exec.ExitError); ok {
			code = ee.ExitCode()
		} else {
			return outcome{base: "bad-request"}
		}
	}
	o := outcome{base: "exit " + strconv.Itoa(code) + " " + hexField(out.String())}
	// implementation-level oracle: stdout is exactly the library's value, or empty with a non-zero status
	expectOK := false
	var want string
	if mode == "s" || mode == "f" || mode == "d" {
		var data interface{}
		if _, cerr := jmespath.Compile(expr); cerr == nil {
			if uerr := json.Unmarshal([]byte(input), &data); uerr == nil {
				if r, serr := jmespath.Search(expr, data); serr == nil {
					if js, merr := json.MarshalIndent(r, "", "  "); merr == nil {
						expectOK, want = true, string(js)+"\n"
					}
				}
			}
		}
	}
	if expectOK {
		if code != 0 {
			o.flags = append(o.flags, "cliexit")
		} else if out.String() != want {
			o.flags = append(o.flags, "cliout")
		}
	} else {
		if code == 0 {
			o.flags = append(o.flags, "clizero")
		}
		if out.Len() != 0 {
			o.flags = append(o.flags, "clierrout")
		}
	}
	return o
}

// pySlice: the indices Python's extended slicing selects on a sequence of
// length n (an implementation independent of util.go).
func pySlice(n int64, a, b, c *int64) ([]int64, bool) {
	step := int64(1)
	if c != nil {
		step = *c
	}
	if step == 0 {
		return nil, false
	}
	clamp := func(v *int64, dflt int64, lo, hi int64) int64 {
		if v == nil {
			return dflt
		}
		x := *v
		if x < 0 {
			if x < -n {
				return lo
			}
			x += n
		}
		if x > hi {
			return hi
		}
		if x < lo {
			return lo
		}
		return x
	}
	var start, stop, cnt int64
	out := []int64{}
	if step > 0 {
		start, stop = clamp(a, 0, 0, n), clamp(b, n, 0, n)
		if stop > start {
			cnt = (stop-start-1)/step + 1
		}
	} else {
		start, stop = clamp(a, n-1, -1, n-1), clamp(b, -1, -1, n-1)
		if start > stop {
			mag := uint64(-(step+1)) + 1
			cnt = int64((uint64(start-stop)-1)/mag) + 1
		}
	}
	i := start
	for k := int64(0); k < cnt; k++ {
		out = append(out, i)
		if k+1 < cnt {
			i += step
		}
	}
	return out, true
}

func optInt(s string) *int64 {
	if s == "_" {
		return nil
	}
	v, err := strconv.ParseInt(s, 10, 64)
	if err != nil {
		return nil
	}
	return &v
}

func sliceExpr(a, b, c string) string {
	t := "["
	if a != "_" {
		t += a
	}
	t += ":"
	if b != "_" {
		t += b
	}
	if c != "_" {
		t += ":" + c
	}
	return t + "]"
}

// doSlice: "[a:b:c]" on the array [0, 1, …, n-1] against Python's slicing.
func doSlice(ns, a, b, c string) outcome {
	n, err := strconv.Atoi(ns)
	if err != nil {
		return outcome{base: "bad-request"}
	}
	doc := make([]interface{}, n)
	for i := range doc {
		doc[i] = float64(i)
	}
	base, res, ok := searchOutcome(sliceExpr(a, b, c), doc)
	o := outcome{base: base}
	want, valid := pySlice(int64(n), optInt(a), optInt(b), optInt(c))
	if !valid {
		if ok {
			o.flags = append(o.flags, "pyslice-step0")
		}
		return o
	}
	got, isArr := res.([]interface{})
	if !ok || !isArr || len(got) != len(want) {
		o.flags = append(o.flags, "pyslice")
		return o
	}
	for i := range want {
		if f, isF := got[i].(float64); !isF || f != float64(want[i]) {
			o.flags = append(o.flags, "pyslice")
			break
		}
	}
	return o
}

func init() {
	extraOps = func(f []string) (outcome, bool) {
		switch {
		case f[0] == "P" && len(f) == 4:
			a, e1 := unhexField(f[1])
			b, e2 := unhexField(f[2])
			if e1 == nil && e2 == nil {
				return doPipeLaw(a, b, f[3]), true
			}
		case f[0] == "R" && len(f) == 5:
			pre, e1 := unhexField(f[1])
			e, e2 := unhexField(f[2])
			suf, e3 := unhexField(f[3])
			if e1 == nil && e2 == nil && e3 == nil {
				return doSubst(pre, e, suf, f[4]), true
			}
		case f[0] == "W" && len(f) == 3:
			a, e1 := unhexField(f[1])
			b, e2 := unhexField(f[2])
			if e1 == nil && e2 == nil {
				return doSameParse(a, b), true
			}
		case f[0] == "TY" && len(f) == 3:
			return doTyped(f[1], f[2]), true
		case f[0] == "ST" && len(f) == 6:
			return doTypedModel(f[1], f[2], f[3], f[4], f[5]), true
		case f[0] == "Y" && len(f) == 5:
			return doSlice(f[1], f[2], f[3], f[4]), true
		case f[0] == "CB" && len(f) == 3:
			n, e1 := strconv.Atoi(f[1])
			tail, e2 := unhexField(f[2])
			if e1 == nil && e2 == nil && n >= 1 && n <= 64<<20 {
				small := doCompile("a" + tail)
				o := doCompile(strings.Repeat("a", n) + tail)
				// the same outcome as the one-letter identifier followed by the same tail, the offset moved by the length
				if strings.HasPrefix(small.base, "errsyn ") {
					k, _ := strconv.Atoi(strings.TrimPrefix(small.base, "errsyn "))
					if o.base != "errsyn "+strconv.Itoa(k+n-1) {
						o.flags = append(o.flags, "bigoffset:"+truncate(o.base, 40))
					}
				} else if strings.HasPrefix(small.base, "ok") != strings.HasPrefix(o.base, "ok") || (small.base == "err") != (o.base == "err") {
					o.flags = append(o.flags, "bigdiffers:"+truncate(small.base, 40))
				}
				o.base = truncate(o.base, 60)
				return o, true
			}
		case f[0] == "XB" && len(f) == 4:
			e, e1 := unhexField(f[2])
			n, e2 := strconv.Atoi(f[3])
			if e1 == nil && e2 == nil && n >= 0 && n <= 64<<20 {
				return doCLI(f[1], e, bigCLIInput(n)), true
			}
		case f[0] == "XD" && len(f) == 2:
			if e, e1 := unhexField(f[1]); e1 == nil {
				return doCLI("d", e, ""), true
			}
		case f[0] == "X" && len(f) == 4:
			e, e1 := unhexField(f[2])
			in, e2 := unhexField(f[3])
			if e1 == nil && e2 == nil {
				return doCLI(f[1], e, in), true
			}
		}
		return outcome{}, false
	}
}
