package main

// Property-specific streams.  Each is a pure function of (seed, index).

import (
	jmespath "github.com/jmespath/go-jmespath"
	"math"
	"strconv"
	"strings"
)

func mustJSON(s string) interface{} {
	v, err := parseJSONText(s)
	if err != nil {
		panic("bad universe literal: " + s)
	}
	return v
}

// A value universe covering every JSON type, emptiness, nesting and
// equal-but-distinct containers.
var universeText = []string{
	`null`, `true`, `false`, `0`, `1`, `-1`, `0.5`, `-0.5`, `2`, `1.5`, `100`, `1e21`, `0.3`, `0.30000000000000004`, `9007199254740992`, `9007199254740994`,
	`""`, `"a"`, `"b"`, `"ab"`, `"1"`, `"0"`, `"true"`, `"null"`, `" "`, `"é"`, `"世"`, `"[1, 2]"`, `"{\"a\": 1}"`,
	`[]`, `[1]`, `[1,2]`, `[2,1]`, `["a"]`, `["a","b"]`, `[null]`, `[[]]`, `[[1]]`, `[1,"a"]`, `[false]`,
	`{}`, `{"a":1}`, `{"a":2}`, `{"b":1}`, `{"a":1,"b":2}`, `{"a":null}`, `{"a":[]}`, `{"a":{"b":1}}`, `{"x":null}`, `{"y":null}`,
}

var universe []interface{}

func init() {
	for _, t := range universeText {
		universe = append(universe, mustJSON(t))
	}
	reg := func(name string, f func(uint64, int) caseT) { streamTable[name] = f }
	reg("core", streamCore)
	reg("proj", streamProj)
	reg("vproj", streamVProj)
	reg("prec", streamPrec)
	reg("syntax", streamSyntax)
	reg("syntax-enum", streamSyntaxEnum)
	reg("bytes", streamBytes)
	reg("hostile", streamHostile)
	reg("fnpaths", streamFnPaths)
	reg("truth", streamTruth)
	reg("truth-nest", streamTruthNest)
	reg("slice", streamSlice)
	reg("slice-big", streamSliceBig)
	reg("fn", streamFn)
	reg("fnmatrix", streamFnMatrix)
	reg("errctx", streamErrCtx)
	reg("api", streamAPI)
	reg("ident", streamIdent)
	reg("unquoted", streamUnquoted)
	reg("spelling", streamSpelling)
	reg("pipe", streamPipe)
	reg("subst", streamSubst)
	reg("jsonish", streamJSONish)
	reg("jsoncodec", streamJSONCodec)
	reg("cli", streamCLI)
}

func genFor(seed uint64, stream string, idx int) *gen {
	r := mix(seed, stream, idx)
	return &gen{r: r, budget: 40, single: r.chance(25)}
}

func exprCase(g *gen, doc interface{}, t toks) caseT {
	expr := render(t, g.r.intn(3), g.r)
	return caseT{lines: []string{"C " + hexField(expr), "S " + hexField(expr) + " " + canonOf(doc)}}
}

// core (C01): identifiers, sub-expressions, indexes, literals, raw strings,
// @, parentheses, pipes, multi-select lists and hashes.
func streamCore(seed uint64, idx int) caseT {
	g := genFor(seed, "core", idx)
	g.noProj, g.noFn, g.noLogic = true, true, true
	var doc interface{}
	if g.r.chance(25) {
		doc = universe[g.r.intn(len(universe))]
	} else {
		doc = topDoc(g)
	}
	if idx%400 == 7 {
		// long but FLAT expressions: many members / steps, no nesting
		n := 130 + g.r.intn(200)
		unit := g.r.pick([]string{"[0]", "[*]", "[1:2]", "[]", "a", "@", "`1`", "'x'", "[0][0]", "(a)"})
		var e string
		switch g.r.intn(5) {
		case 0:
			e = "[" + strings.Repeat(unit+", ", n) + unit + "]"
		case 1:
			e = "{" + strings.Repeat("k: "+unit+", ", n) + "z: " + unit + "}"
		case 2:
			e = strings.Repeat(unit+" | ", n) + unit
		case 3:
			e = "a" + strings.Repeat(".a", n)
		default:
			e = "@" + strings.Repeat("[0]", n)
		}
		arr := []interface{}{[]interface{}{1.0, 2.0}, 3.0}
		return caseT{lines: []string{"C " + hexField(e), "S " + hexField(e) + " " + canonOf(map[string]interface{}{"a": arr})}}
	}
	return exprCase(g, doc, g.expr(doc, 2+g.r.intn(4)))
}

// proj (C02): projections of every kind, chained and nested, all RHS forms.
func streamProj(seed uint64, idx int) caseT {
	g := genFor(seed, "proj", idx)
	g.noFn = !g.r.chance(35)
	if idx%25 == 3 {
		// the SAME array as the first (or only) member of several flattens / projections in one expression:
		// a result that aliases it, or that was appended to in place, shows up in the sibling or in the pipe
		mk := func(n, base int) []interface{} {
			out := []interface{}{}
			for i := 0; i < n; i++ {
				out = append(out, float64(base+i))
			}
			return out
		}
		d := map[string]interface{}{"a": mk(1+g.r.intn(7), 1), "b": mk(1+g.r.intn(3), 20), "c": mk(1+g.r.intn(3), 30),
			"n": []interface{}{mk(1+g.r.intn(7), 1), mk(1+g.r.intn(2), 40), mk(g.r.intn(3), 50)}}
		e := g.r.pick([]string{"[[a, b][], [a, c][]]", "[[a, b][], [a, c][], a]", "[n[], [n[0], c][], n[0]]", "[[a, b][], a, [a, c][]] | [@[0], @[2], @[1]]",
			"[a[*], [a, b][], a[*]]", "[[a, b][] , [a, c][]] | [0]", "[[a, b][], [a, c][]] | [1]", "[n[] | [0], n[], [n[0], b][]]", "[[a, b, c][], [a, c, b][], [a][]]",
			"[a[:], [a[:], b][], [a[:], c][]]", "[[a, b][].abs(@), [a, c][]]", "[[a, b][] | length(@), [a, c][] | length(@), length(a)]", "[sort(a), [sort(a), b][], [a, c][]]"})
		return caseT{lines: []string{"S " + hexField(e) + " " + canonOf(d)}}
	}
	doc := topDoc(g)
	var t toks
	for try := 0; try < 6; try++ {
		t = g.expr(doc, 3+g.r.intn(3))
		s := t.text()
		if strings.Contains(s, "[ * ]") || strings.Contains(s, "[]") || strings.Contains(s, "[?") || strings.Contains(s, ":") || strings.Contains(s, ". *") {
			break
		}
		g.budget = 40
	}
	return exprCase(g, doc, t)
}

// vproj (C02): an object wildcard as the outermost producer, on objects with
// several members; compared as a multiset (member order is unspecified).
func streamVProj(seed uint64, idx int) caseT {
	g := genFor(seed, "vproj", idx)
	g.single = false
	n := 1 + g.r.intn(4)
	m := map[string]interface{}{}
	keys := []string{g.r.pick(simpleKeys), g.r.pick(simpleKeys)}
	for i := 0; i < n; i++ {
		var v interface{}
		switch g.r.intn(5) {
		case 0:
			v = g.value(1)
		case 1:
			v = g.array(1)
		default:
			o := map[string]interface{}{}
			for _, k := range keys {
				if g.r.chance(80) {
					o[k] = g.value(1)
				}
			}
			v = o
		}
		m[g.r.pick(keyPool)] = v
	}
	doc := map[string]interface{}{"o": m, "z": g.value(1)}
	var el interface{}
	for _, k := range sortedKeys(m) {
		el = m[k]
		break
	}
	var rhs toks
	switch g.r.intn(6) {
	case 0:
	case 1:
		rhs = toks{".", g.identTok(keys[0])}
	case 2:
		rhs = toks{".", g.identTok(keys[0]), ".", g.identTok(keys[1])}
	case 3:
		rhs = append(toks{"."}, g.call(el, 1)...) // a function on the right of the wildcard
	case 4:
		rhs = toks{"[", g.intTok(2), "]"}
	default:
		rhs = g.rhs(el, 2)
		// The multiset comparison is sound only while every suffix stays inside the wildcard's
		// right-hand side.  A flatten ends it, and a bracket after a multi-select applies to the
		// whole (order-dependent) list: keep the suffix only if the expression still is one
		// value projection at the top.
		if !topIsValueProjection(render(append(toks{"o", ".", "*"}, rhs...), 1, nil)) {
			rhs = nil
		}
	}
	g.noProj = false
	left := toks{"o"}
	if g.r.chance(20) {
		left = toks{"@", ".", "o"}
	}
	t := append(append(left, ".", "*"), rhs...)
	if g.r.chance(15) {
		t = append(toks{"*"}, rhs...)
		doc2 := m
		expr := render(t, g.r.intn(3), g.r)
		return caseT{lines: []string{"C " + hexField(expr), "SU " + hexField(expr) + " " + canonOf(doc2)}}
	}
	expr := render(t, g.r.intn(3), g.r)
	return caseT{lines: []string{"C " + hexField(expr), "SU " + hexField(expr) + " " + canonOf(doc)}}
}

func topIsValueProjection(expr string) bool {
	jp, err := jmespath.Compile(expr)
	if err != nil || jp == nil {
		return false
	}
	return strings.HasPrefix(jmespath.VerifDumpAST(jmespath.VerifCompiledAST(jp)), "(ValueProjection")
}

// prec (C03): operator soups without parentheses; ASTs and results compared.
func streamPrec(seed uint64, idx int) caseT {
	g := genFor(seed, "prec", idx)
	g.single = true
	// every object has one member, so that wildcards cannot observe iteration order
	doc := map[string]interface{}{
		"a": []interface{}{map[string]interface{}{"b": []interface{}{map[string]interface{}{"c": 1.0}, map[string]interface{}{"c": ""}, 2.0}},
			map[string]interface{}{"b": []interface{}{}}, map[string]interface{}{"c": map[string]interface{}{"d": true}}, 3.0},
	}
	atoms := []string{"a", "b", "c", "d", "e", "@", "`1`", "`false`", "'x'", "`[1,2]`", "[0]", "*"}
	var term func() toks
	depth := 0
	term = func() toks {
		t := toks{}
		for g.r.chance(25) {
			t = append(t, "!")
		}
		if depth < 2 && g.r.chance(18) {
			// a parenthesised group as the atom: whatever it is inside (a projection, a binary operator), it is CLOSED, and the
			// postfixes that follow apply to its value — `(a[*]).b` is `a[*] | b`, not `a[*].b`
			depth++
			t = append(t, "(")
			t = append(t, term()...)
			if g.r.chance(30) {
				t = append(t, g.r.pick([]string{"|", "||", "&&", "=="}))
				t = append(t, term()...)
			}
			t = append(t, ")")
			depth--
		} else {
			t = append(t, g.r.pick(atoms))
		}
		for i := 0; i < 3 && g.r.chance(45); i++ {
			switch g.r.intn(9) {
			case 0, 1:
				t = append(t, ".", g.r.pick([]string{"a", "b", "c", "d"}))
			case 2:
				t = append(t, "[", strconv.Itoa(g.r.intn(3)-1), "]")
			case 3:
				t = append(t, "[", "*", "]")
			case 4:
				t = append(t, "[]")
			case 5:
				t = append(t, "[?", g.r.pick([]string{"c", "b", "@", "!c"}), "]")
			case 6:
				t = append(t, ".", "*")
			case 7:
				t = append(t, "[", ":", strconv.Itoa(g.r.intn(3)), "]")
			default:
				t = append(t, ".", "[", "a", ",", "b", "]")
			}
		}
		return t
	}
	ops := []string{"|", "||", "&&", "==", "!=", "<", "<=", ">", ">=", "||", "&&", "|"}
	t := term()
	for i, n := 0, 1+g.r.intn(4); i < n; i++ {
		t = append(t, g.r.pick(ops))
		t = append(t, term()...)
	}
	return exprCase(g, doc, t)
}

// The token alphabet of the syntax streams: one or two representatives per token kind.
var tokenAlphabet = []string{"a", "b", "\"q\"", "1", "-2", "`1`", "`{`", "'r'", "@", "*", ".", ",", ":", "(", ")", "[", "]", "{", "}",
	"[?", "[]", "|", "||", "&&", "&", "!", "==", "<", "!=", ">="}

func alphabetSeq(idx int, n int) toks {
	t := make(toks, n)
	for i := 0; i < n; i++ {
		t[i] = tokenAlphabet[idx%len(tokenAlphabet)]
		idx /= len(tokenAlphabet)
	}
	return t
}

// single-member objects only: wildcards cannot observe iteration order
var syntaxDoc = mustJSON(`{"a":{"b":[1,2,{"a":3},{"b":[{"a":"x"}]},[4]]}}`)

// syntax-enum (C04/C17): ALL token sequences, shortest first.
func streamSyntaxEnum(seed uint64, idx int) caseT {
	n, base := 1, len(tokenAlphabet)
	span := base
	for idx >= span {
		idx -= span
		n++
		span *= base
	}
	t := alphabetSeq(idx, n)
	expr := render(t, 0, nil)
	return caseT{lines: []string{"C " + hexField(expr), "S " + hexField(expr) + " " + canonOf(syntaxDoc)}}
}

// syntax (C04/C17): random near-valid token sequences of length 5..12, in two
// white-space renderings.
func streamSyntax(seed uint64, idx int) caseT {
	g := genFor(seed, "syntax", idx)
	if idx%1500 == 7 {
		// a syntax error a million bytes into the expression (line kind CB: the worker builds the expression from its size; judged
		// on the implementation alone: offset, message of MustCompile, caret line of HighlightLocation)
		n := []int{999998, 999999, 1000000, 1000001, 1 << 21, 3000000}[(idx/1500)%6]
		return caseT{lines: []string{"CB " + strconv.Itoa(n) + " " + hexField(g.r.pick([]string{" b", "]", ".", " ~", "[", " 'x", ")", "&&"}))}}
	}
	var t toks
	if g.r.chance(60) {
		// start from a valid expression and damage it
		t = g.expr(syntaxDoc, 2+g.r.intn(2))
		for i, n := 0, 1+g.r.intn(2); i < n && len(t) > 0; i++ {
			j := g.r.intn(len(t))
			switch g.r.intn(4) {
			case 0:
				t = append(t[:j:j], t[j+1:]...)
			case 1:
				t = append(t[:j:j], append(toks{g.r.pick(tokenAlphabet)}, t[j:]...)...)
			case 2:
				t = append(append(t[:j:j], g.r.pick(tokenAlphabet)), t[j+1:]...)
			default:
				t = append(t[:j+1:j+1], t[j:]...)
			}
		}
	} else {
		n := 5 + g.r.intn(8)
		for i := 0; i < n; i++ {
			t = append(t, g.r.pick(tokenAlphabet))
		}
	}
	e1, e2 := render(t, 0, nil), render(t, 2, g.r)
	lines := []string{"C " + hexField(e1), "W " + hexField(e1) + " " + hexField(e2)}
	// The damage above can strip the order-insensitive consumer the generator wraps around
	// keys()/values()/.* of multi-member objects (length(values({a:..,b:..})) -> values({..})), and Go's
	// map iteration order would then show in the result: such expressions are compared by AST only.
	if !orderExposed(e1) {
		lines = append(lines, "S "+hexField(e1)+" "+canonOf(syntaxDoc))
	}
	return caseT{lines: lines}
}

// orderExposed: the text may iterate over an object built by a multi-select hash or merge().
func orderExposed(e string) bool {
	if !strings.Contains(e, "{") && !strings.Contains(e, "merge") {
		return false
	}
	return strings.Contains(e, "keys") || strings.Contains(e, "values") || strings.Contains(e, "*")
}

var byteAlphabet = []string{"a", "Z", "_", "0", "9", "-", " ", "\t", "\n", "\r", "\v", "\f", ".", "*", "[", "]", "?", "{", "}", "(", ")",
	",", ":", "|", "&", "!", "=", "<", ">", "@", "\"", "'", "`", "\\", "\x00", "\x7f", "\x80", "\xbf", "\xc3", "\xc3\xa9", "\xe4\xb8\x96",
	"\xf0\x9f\x98\x80", "\xff", "\xed\xa0\x80", " ", " ", "u", "n", "1e5", "\xc2", "%", "%v", "%s%d", "$", "#", "^", "~", ";", "+", "/"}

// bytes (C05/C17): arbitrary byte strings, valid UTF-8 or not.
func streamBytes(seed uint64, idx int) caseT {
	g := genFor(seed, "bytes", idx)
	n := 1 + g.r.intn(8)
	if g.r.chance(10) {
		n = 8 + g.r.intn(40)
	}
	var sb strings.Builder
	for i := 0; i < n; i++ {
		sb.WriteString(g.r.pick(byteAlphabet))
	}
	e := sb.String()
	return caseT{lines: []string{"C " + hexField(e), "S " + hexField(e) + " " + canonOf(syntaxDoc)}}
}

// hostile (C05): grammar-generated expressions with hostile leaves, mutated
// bytes, and large inputs (judged on the implementation alone: "Q").
func streamHostile(seed uint64, idx int) caseT {
	g := genFor(seed, "hostile", idx)
	g.single = true
	doc := topDoc(g)
	switch g.r.intn(10) {
	case 0: // deep nesting
		n := 200 + g.r.intn(3000)
		if g.r.chance(10) {
			n = 20000
		}
		pat := g.r.pick([]string{"(", "!", "[", "[?", "a.", "a|", "{a:", "a||", "*.", "a[*].", "abs(", "[]", "`[`", "&", "a[0]", "a==", "not_null(a,"})
		e := strings.Repeat(pat, n) + g.r.pick([]string{"", "a", "@", "a" + strings.Repeat(")", n), "a" + strings.Repeat("]", n)})
		return caseT{lines: []string{"Q " + hexField(e) + " " + canonOf(doc)}}
	case 9: // values that share structure: work must stay proportional to the expression, not to the unfolded tree
		if g.r.chance(50) {
			n := 26 + g.r.intn(16)
			dup := g.r.pick([]string{"[@, @]", "{a: @, b: @}", "[@, @, `1`]"})
			s := "@" + strings.Repeat(" | "+dup, n)
			e := g.r.pick([]string{"(%s) == (%s)", "(%s) != (%s)", "contains([%s], %s)", "[%s][?@ == (%s)] | length(@)", "(%s) < (%s)"})
			return caseT{lines: []string{"Q " + hexField(strings.Replace(e, "%s", s, -1)) + " " + canonOf(doc)}}
		}
		fallthrough
	case 1: // big document
		n := 2000 + g.r.intn(8000)
		arr := make([]interface{}, n)
		for i := range arr {
			arr[i] = map[string]interface{}{"a": float64(i % 7), "b": strconv.Itoa(i % 5)}
		}
		e := g.r.pick([]string{"sort_by(@, &a)[0]", "[?a > `3`].b | length(@)", "[*].a | sum(@)", "max_by(@, &b).a", "[::-1][0]", "map(&a, @) | avg(@)", "[].b | join(',', @) | length(@)", "reverse(@)[0]", "length(to_string(@))"})
		return caseT{lines: []string{"Q " + hexField(e) + " " + canonOf(arr)}}
	case 2, 3: // extreme integers
		ints := []string{"9223372036854775807", "-9223372036854775808", "9223372036854775806", "-9223372036854775807", "9223372036854775808",
			"-9223372036854775809", "4611686018427387904", "-4611686018427387904", "99999999999999999999", "-", "--1", "-0", "007", "2147483648"}
		arr := []interface{}{0.0, 1.0, 2.0, 3.0}
		mk := func() string {
			if g.r.chance(30) {
				return ""
			}
			return g.r.pick(ints)
		}
		var e string
		switch g.r.intn(3) {
		case 0:
			e = "[" + g.r.pick(ints) + "]"
		case 1:
			e = "[" + mk() + ":" + mk() + ":" + mk() + "]"
		default:
			e = "foo[" + mk() + ":" + mk() + "]"
		}
		return caseT{lines: []string{"C " + hexField(e), "S " + hexField(e) + " " + canonOf(map[string]interface{}{"foo": arr}), "S " + hexField(e) + " " + canonOf(arr)}}
	case 4, 5: // byte-level mutation of a valid expression
		t := g.expr(doc, 2+g.r.intn(2))
		bs := []byte(render(t, g.r.intn(3), g.r))
		for i, n := 0, 1+g.r.intn(3); i < n && len(bs) > 0; i++ {
			j := g.r.intn(len(bs))
			switch g.r.intn(4) {
			case 0:
				bs = append(bs[:j:j], bs[j+1:]...)
			case 1:
				bs[j] = byte(g.r.intn(256))
			case 2:
				bs = append(bs[:j:j], append([]byte(g.r.pick(byteAlphabet)), bs[j:]...)...)
			default:
				bs = bs[:j]
			}
		}
		e := string(bs)
		return caseT{lines: []string{"C " + hexField(e), "S " + hexField(e) + " " + canonOf(doc)}}
	case 7: // tokens whose decoded value is LONGER or shorter than their spelling (invalid UTF-8 inside quoted identifiers
		// decodes to 3 bytes each, escapes decode to fewer), placed where a syntax error is reported at or after them
		n := 1 + g.r.intn(8)
		body := ""
		for i := 0; i < n; i++ {
			body += g.r.pick([]string{"\xff", "\xfe", "\xc0", "\x80", "\xf5", "\xed\xa0\x80", "\\u00e9", "\\n", "\\\\", "é", "\xe4\xb8", "a"})
		}
		q := "\"" + body + "\""
		e := strings.Replace(g.r.pick([]string{"a %s", "%s(@)", "foo[%s]", "%s %s", "[%s", "(%s", "{a: %s", "%s.", "a.%s b", "%s[", "%s ||", "f(%s", "a[?%s", "%s:", "{%s: a", "{%s a}", "%s\"", "`%s", "'x' %s", "[%s,"}), "%s", q, -1)
		return caseT{lines: []string{"C " + hexField(e), "S " + hexField(e) + " " + canonOf(doc)}}
	case 6: // non-ASCII directly after identifier characters and delimiters
		e := g.r.pick([]string{"a", "ab", "_", "a1", "\"a\"", "'a'", "`1`", "a.", "a[", "@"}) + g.r.pick([]string{"\u0080", "é", "\x80", "\xff", " ", "\U0001F600", "\x7f", "Ā"}) + g.r.pick([]string{"", "b", ".c", "]"})
		return caseT{lines: []string{"C " + hexField(e), "S " + hexField(e) + " " + canonOf(doc)}}
	default: // truncated valid expressions
		t := g.expr(doc, 2+g.r.intn(3))
		if len(t) > 1 {
			t = t[:1+g.r.intn(len(t)-1)]
		}
		e := render(t, g.r.intn(3), g.r)
		return caseT{lines: []string{"C " + hexField(e), "S " + hexField(e) + " " + canonOf(doc)}}
	}
}

// fnpaths (C06): every built-in with document paths as arguments (so results
// may alias the document), nested in projections, pipes and references.
func streamFnPaths(seed uint64, idx int) caseT {
	g := genFor(seed, "fnpaths", idx)
	g.paths, g.single = true, false
	doc := map[string]interface{}{
		"items": g.objArray(), "nums": g.literalOfType("anum"), "strs": g.literalOfType("astr"),
		"obj": g.object(2), "lists": []interface{}{g.literalOfType("anum"), g.literalOfType("anum"), g.array(1)},
		"people": g.objArray(), "mixed": g.array(1), "s": g.str(), "n": g.num(),
	}
	var t toks
	switch g.r.intn(4) {
	case 0:
		t = g.call(doc, 2)
	case 1:
		t = append(g.call(doc, 2), g.suffix([]interface{}{map[string]interface{}{"a": 1.0}}, 1, false)...)
	case 2:
		inner := g.call(doc, 2)
		t = append(append(toks{"["}, inner...), ",", "items", ",", "nums", "]")
	default:
		t = g.expr(doc, 3)
	}
	return exprCase(g, doc, t)
}

func (g *gen) objArray() []interface{} {
	n := g.r.intn(5)
	if g.r.chance(8) {
		n = 14 + g.r.intn(10)
		if g.r.chance(40) {
			n = sizeLadder[g.r.intn(len(sizeLadder))] // around the thresholds at which an algorithm might switch
		}
	}
	out := []interface{}{}
	strKeys := g.r.chance(40)
	for i := 0; i < n; i++ {
		o := map[string]interface{}{}
		if strKeys {
			o["a"] = g.r.pick([]string{"carol", "alice", "bob", "b", "a", ""})
		} else {
			o["a"] = float64(g.r.intn(4))
		}
		o["n"] = float64(i)
		if g.r.chance(8) {
			o["a"] = g.value(0)
		}
		if g.r.chance(5) {
			delete(o, "a")
		}
		out = append(out, o)
	}
	return out
}

// sizes around the thresholds at which an implementation might switch algorithm or buffer
var sizeLadder = []int{31, 32, 33, 47, 48, 49, 63, 64, 65, 99, 100, 101, 127, 128, 129, 200, 255, 256, 257, 500, 511, 512, 513, 1000, 1023, 1024, 1025}

var cmpOps = []string{"==", "!=", "<", "<=", ">", ">=", "||", "&&"}

// truth (C07): every operator on every ordered pair of the value universe,
// at top level (literals), through document fields, and inside a filter.
func streamTruth(seed uint64, idx int) caseT {
	n := len(universe)
	form := idx % 4
	idx /= 4
	op := cmpOps[idx%len(cmpOps)]
	idx /= len(cmpOps)
	u1, u2 := universe[idx%n], universe[(idx/n)%n]
	doc := map[string]interface{}{"a": u1, "b": u2, "arr": []interface{}{u1, u2, nil, 0.0}}
	var e string
	switch form {
	case 0:
		e = literalTok(u1) + " " + op + " " + literalTok(u2)
	case 1:
		e = "a " + op + " b"
	case 2:
		e = "arr[?@ " + op + " " + literalTok(u2) + "]"
	default:
		e = "[!a, !b, a " + op + " b, !(a " + op + " b)]"
	}
	if form == 2 && idx%3 == 0 {
		// the same comparison with a FIELD on the left, over elements most of which are not objects
		doc["mix"] = []interface{}{u1, map[string]interface{}{"a": u1}, nil, 1.0, "s", []interface{}{u1}, map[string]interface{}{"b": u1}, true}
		e = "[mix[?a " + op + " " + literalTok(u2) + "], mix[*].[a " + op + " " + literalTok(u2) + "], mix[?" + literalTok(u2) + " " + op + " a]]"
	}
	return caseT{lines: []string{"S " + hexField(e) + " " + canonOf(doc)}}
}

func truthCount() int { return 4 * len(cmpOps) * len(universe) * len(universe) }

// truth-nest (C07): random nestings of the operators over universe values.
func streamTruthNest(seed uint64, idx int) caseT {
	g := genFor(seed, "truth-nest", idx)
	var build func(d int) string
	build = func(d int) string {
		if d == 0 || g.r.chance(25) {
			if g.r.chance(8) {
				// an operand that fails when evaluated: `||` / `&&` must not evaluate it unless needed
				return g.r.pick([]string{"abs(`\"x\"`)", "nosuchfn(@)", "length(`1`)", "`[1]`[::0]", "abs(c)"})
			}
			if g.r.chance(6) {
				// strings that are not valid UTF-8 (raw string literals): equal only to themselves
				return g.r.pick([]string{"'caf\xe9'", "'caf\xe8'", "'\xff'", "'\xfe'", "'caf\xef\xbf\xbd'", "'\xc3'"})
			}
			if g.r.chance(40) {
				return g.r.pick([]string{"a", "b", "c"})
			}
			u := universe[g.r.intn(len(universe))]
			if str, isStr := u.(string); isStr && rawOK(str) && g.r.chance(60) {
				return rawTok(str) // the same string as a raw string literal ('' is false-like)
			}
			return literalTok(u)
		}
		switch g.r.intn(6) {
		case 0:
			return "!" + build(d-1)
		case 1:
			return "(" + build(d-1) + ")"
		default:
			return build(d-1) + " " + g.r.pick(cmpOps) + " " + build(d-1)
		}
	}
	doc := map[string]interface{}{"a": universe[g.r.intn(len(universe))], "b": universe[g.r.intn(len(universe))], "c": universe[g.r.intn(len(universe))],
		"arr": []interface{}{universe[g.r.intn(len(universe))], universe[g.r.intn(len(universe))], universe[g.r.intn(len(universe))]}}
	e := build(3)
	if g.r.chance(30) {
		e = "arr[?" + strings.Replace(e, "a", "@", 1) + "]"
	}
	return caseT{lines: []string{"C " + hexField(e), "S " + hexField(e) + " " + canonOf(doc)}}
}

// slice (C08): exhaustive window: length 0..6, each of start/stop/step absent
// or in [-n-2, n+2] (step 0 included: the error row).
func sliceWindow(n int) int { return 2*(n+2) + 2 } // absent + [-n-2, n+2]
func sliceCount(maxN int) int {
	c := 0
	for n := 0; n <= maxN; n++ {
		w := sliceWindow(n)
		c += w * w * w
	}
	return c
}
func streamSlice(seed uint64, idx int) caseT {
	n := 0
	for {
		w := sliceWindow(n)
		if idx < w*w*w {
			break
		}
		idx -= w * w * w
		n++
	}
	w := sliceWindow(n)
	dec := func(k int) string {
		if k == 0 {
			return "_"
		}
		return strconv.Itoa(k - 1 - (n + 2))
	}
	a, b, c := dec(idx%w), dec((idx/w)%w), dec(idx/(w*w))
	lines := []string{"Y " + strconv.Itoa(n) + " " + a + " " + b + " " + c}
	if idx%11 == 0 { // two slices with different parts in one expression (state carried from one to the next)
		arr := make([]interface{}, n)
		for i := range arr {
			arr[i] = float64(i)
			if idx%33 == 0 && i%3 == 1 {
				arr[i] = nil // a slice is a projection: it drops nulls BEFORE the next stage counts positions
			}
		}
		e1, e2 := sliceExpr(a, b, c), sliceExpr(c, a, "_")
		if idx%22 == 0 {
			e2 = sliceExpr("_", "_", b)
		}
		d := canonOf(map[string]interface{}{"a": arr})
		lines = append(lines, "S "+hexField("a"+e1+" | "+e2)+" "+d, "S "+hexField("[a"+e1+", a"+e2+", a"+e1+"]")+" "+d)
	}
	if idx%5 == 0 {
		// offset / limit idiom over an array WITH nulls: the left slice is a projection and drops them before the right
		// slice counts positions
		arr := make([]interface{}, n+3)
		for i := range arr {
			arr[i] = float64(i)
			if i%3 == 1 || i == (idx/5)%(n+3) {
				arr[i] = nil
			}
		}
		abs := func(s string) string {
			if s == "_" {
				return ""
			}
			return strings.TrimPrefix(s, "-")
		}
		d := canonOf(map[string]interface{}{"a": arr})
		lines = append(lines, "S "+hexField("a["+abs(a)+":] | [:"+abs(b)+"]")+" "+d, "S "+hexField("a["+abs(a)+":"+abs(c)+"] | ["+abs(b)+":]")+" "+d,
			"S "+hexField("a[:"+abs(b)+"] | ["+abs(a)+":"+abs(c)+"] | [0]")+" "+d)
	}
	if idx%13 == 0 { // a slice inside the right-hand side of a slice projection, and slices of slices
		rows := make([]interface{}, n)
		for i := range rows {
			row := make([]interface{}, n+1)
			for j := range row {
				row[j] = float64(10*i + j)
			}
			rows[i] = map[string]interface{}{"m": row, "i": float64(i)}
		}
		e1, e2 := sliceExpr(a, b, c), sliceExpr(c, "_", a)
		if idx%26 == 0 {
			e2 = sliceExpr("_", b, "_")
		}
		d := canonOf(map[string]interface{}{"rows": rows})
		lines = append(lines, "S "+hexField("rows"+e1+".m"+e2)+" "+d, "S "+hexField("rows"+e1+".m"+e2+e1)+" "+d, "S "+hexField("rows[*].m"+e1+" | @"+e2+e1)+" "+d)
	}
	if idx%11 == 0 { // numbers that do not fit an int (or an int64), of either sign, in every position
		huge := []string{"-99999999999999999999", "99999999999999999999", "-9223372036854775809", "9223372036854775808", "-9223372036854775808", "9223372036854775807", "-18446744073709551617", "123456789012345678901234567890"}
		h := huge[(idx/11)%len(huge)]
		d := canonOf(map[string]interface{}{"a": []interface{}{0.0, 1.0, 2.0, 3.0, 4.0}})
		for _, e := range []string{"a[" + h + ":]", "a[:" + h + "]", "a[::" + h + "]", "a[" + h + ":2]", "a[2:" + h + ":-1]", "a[" + h + "]", "a[1:3:" + h + "]"} {
			lines = append(lines, "S "+hexField(e)+" "+d)
		}
	}
	if idx%7 == 0 { // the same slice written with white space around every part, and one part per line
		arr := make([]interface{}, n)
		for i := range arr {
			arr[i] = float64(i)
		}
		part := func(x string) string {
			if x == "_" {
				return ""
			}
			return x
		}
		d := canonOf(map[string]interface{}{"a": arr})
		lines = append(lines, "S "+hexField("a[ "+part(a)+" : "+part(b)+" : "+part(c)+" ]")+" "+d, "S "+hexField("a["+part(a)+" :"+part(b)+"\t:"+part(c)+"\n]")+" "+d, "S "+hexField("a[\n"+part(a)+"\n:\n"+part(b)+"\n]")+" "+d)
	}
	if idx%97 == 0 { // the same slice on non-arrays and behind a projection
		e := sliceExpr(a, b, c)
		lines = append(lines, "S "+hexField("a"+e)+" "+canonOf(map[string]interface{}{"a": "abc"}),
			"S "+hexField(e+".x")+" "+canonOf([]interface{}{map[string]interface{}{"x": 1.0}, map[string]interface{}{"y": 2.0}, map[string]interface{}{"x": 3.0}}),
			"S "+hexField(e)+" null")
	}
	return caseT{lines: lines}
}

var bigInts = []int64{1, -1, 2, -2, 1 << 62, -(1 << 62), math.MaxInt64 - 1, -(math.MaxInt64 - 1), math.MaxInt64, math.MinInt64, math.MinInt64 + 1, 1 << 31, -(1 << 31), 1 << 32, 3, -3}

// slice-big (C08): boundary values up to ±(2^63−1) on lengths 0..4, and random larger cases.
func streamSliceBig(seed uint64, idx int) caseT {
	g := genFor(seed, "slice-big", idx)
	m := len(bigInts) + 1
	if idx < 5*m*m*m {
		n := idx % 5
		idx /= 5
		dec := func(k int) string {
			if k == 0 {
				return "_"
			}
			return strconv.FormatInt(bigInts[k-1], 10)
		}
		return caseT{lines: []string{"Y " + strconv.Itoa(n) + " " + dec(idx%m) + " " + dec((idx/m)%m) + " " + dec(idx/(m*m))}}
	}
	n := g.r.intn(51)
	if g.r.chance(30) {
		n = sizeLadder[g.r.intn(len(sizeLadder))] // long arrays (a count computed up front, a threshold between two loops)
	}
	pick := func() string {
		if n > 50 && g.r.chance(50) {
			// bounds close to each other anywhere in a long array, steps of small magnitude ≥ 2
			return strconv.Itoa(g.r.intn(n+4) - 2 - g.r.intn(2)*n)
		}
		switch g.r.intn(10) {
		case 0, 1, 2:
			return "_"
		case 3:
			return strconv.FormatInt(bigInts[g.r.intn(len(bigInts))], 10)
		default:
			return strconv.Itoa(g.r.intn(2*n+7) - n - 3)
		}
	}
	return caseT{lines: []string{"Y " + strconv.Itoa(n) + " " + pick() + " " + pick() + " " + pick()}}
}

func sliceBigCount() int { m := len(bigInts) + 1; return 5 * m * m * m }
