package main

// C12: N goroutines share compiled expressions and documents, and call the
// one-shot Search with different expressions, under the race detector
// (this file is used through the binary built with `go build -race`).
// Every result is compared with the result of the same call made alone.

import (
	"bufio"
	"encoding/json"
	"fmt"
	"io/ioutil"
	"os"
	"os/exec"
	"strconv"
	"strings"
	"sync"
	"time"

	jmespath "github.com/jmespath/go-jmespath"
)

type raceCase struct {
	expr string
	doc  interface{}
}

func raceCases(seed uint64, idx int) []raceCase {
	var out []raceCase
	streams := []string{"fnpaths", "expr", "proj", "fn", "slicey"}
	for k := 0; k < 3; k++ {
		st := streams[(idx+k)%len(streams)]
		if st == "slicey" {
			g := genFor(seed, "slicey", idx*3+k)
			n := 4 + g.r.intn(6)
			arr := make([]interface{}, n)
			for i := range arr {
				arr[i] = float64(i)
			}
			e := "[a" + strings.Join(g.sliceToks(n), "") + ", a" + strings.Join(g.sliceToks(n), "") + ", a[::-1], a" + strings.Join(g.sliceToks(n), "") + "]"
			out = append(out, raceCase{e, map[string]interface{}{"a": arr}})
			continue
		}
		c := genCase(st, seed, idx*3+k)
		for _, l := range c.lines {
			f := strings.Fields(strings.SplitN(l, "\t", 2)[0])
			if len(f) == 3 && f[0] == "S" {
				e, err1 := unhexField(f[1])
				d, err2 := parseCanon(f[2])
				if err1 == nil && err2 == nil {
					out = append(out, raceCase{e, d})
					break
				}
			}
		}
	}
	return out
}

func walk(v interface{}) int {
	n := 1
	switch t := v.(type) {
	case []interface{}:
		for _, e := range t {
			n += walk(e)
		}
	case map[string]interface{}:
		for _, e := range t {
			n += walk(e)
		}
	}
	return n
}

// raceWorker: "raceworker <seed> <start> <step> <end> <goroutines> <iterations>"
func raceWorker(args []string) {
	seed, _ := strconv.ParseUint(args[0], 10, 64)
	start, _ := strconv.Atoi(args[1])
	step, _ := strconv.Atoi(args[2])
	end, _ := strconv.Atoi(args[3])
	G, _ := strconv.Atoi(args[4])
	iters, _ := strconv.Atoi(args[5])
	w := bufio.NewWriter(os.Stdout)
	for idx := start; idx < end; idx += step {
		cases := raceCases(seed, idx)
		descr := []string{}
		for _, c := range cases {
			descr = append(descr, hexField(c.expr)+" "+canonOf(c.doc))
		}
		fmt.Fprintf(w, "# %d %s\n", idx, strings.Join(descr, " | "))
		w.Flush()
		type compiled struct {
			jp   *jmespath.JMESPath
			want string
		}
		cs := make([]compiled, len(cases))
		for i, c := range cases {
			jp, err := jmespath.Compile(c.expr)
			if err == nil {
				cs[i].jp = jp
			}
			var r interface{}
			var serr error
			p, _ := safely(func() { r, serr = jmespath.Search(c.expr, c.doc) })
			cs[i].want = searchBase(r, serr, p)
		}
		var wg sync.WaitGroup
		var mu sync.Mutex
		var bad []string
		for g := 0; g < G; g++ {
			wg.Add(1)
			go func(g int) {
				defer wg.Done()
				for it := 0; it < iters; it++ {
					i := (g + it) % len(cases)
					c := cases[i]
					var r interface{}
					var err error
					var p bool
					switch (g + it/3) % 3 {
					case 0:
						if cs[i].jp == nil {
							continue
						}
						p, _ = safely(func() { r, err = cs[i].jp.Search(c.doc) })
					case 1:
						p, _ = safely(func() { r, err = jmespath.Search(c.expr, c.doc) })
					default:
						walk(c.doc) // a caller that only reads the shared document
						continue
					}
					if got := searchBase(r, err, p); got != cs[i].want {
						mu.Lock()
						bad = append(bad, hexField(c.expr)+" want="+truncate(cs[i].want, 300)+" got="+truncate(got, 300))
						mu.Unlock()
					}
				}
			}(g)
		}
		wg.Wait()
		for _, b := range bad {
			fmt.Fprintf(w, "! %d %s\n", idx, b)
		}
		w.Flush()
	}
	fmt.Fprintln(w, "# done")
	w.Flush()
}

// raceMain: "harness race <property> <tier> <out.json>"
func raceMain(args []string) int {
	prop, tier, outPath := args[0], args[1], args[2]
	self, _ := os.Executable()
	raceBin := strings.TrimSuffix(self, "harness") + "harness-race"
	count, G, iters, procs := 1200, 8, 30, 8
	if tier == "thorough" {
		count, G, iters, procs = 12000, 32, 40, 8
	}
	seed := envSeed()
	t0 := time.Now()
	out := checkOut{Property: prop, Tier: tier, Seed: seed, Streams: map[string]int{"race(fnpaths,expr,proj,fn,slices)": count}, Kinds: map[string]int{}}
	var mu sync.Mutex
	var wg sync.WaitGroup
	for w := 0; w < procs; w++ {
		wg.Add(1)
		go func(w int) {
			defer wg.Done()
			start := w
			for start < count {
				cmd := exec.Command(raceBin, "raceworker", strconv.FormatUint(seed, 10), strconv.Itoa(start), strconv.Itoa(procs), strconv.Itoa(count), strconv.Itoa(G), strconv.Itoa(iters))
				cmd.Env = append(os.Environ(), "GORACE=halt_on_error=1 exitcode=66", "GOMAXPROCS="+strconv.Itoa([]int{8, 2, 4, 3}[w%4]))
				stdout, _ := cmd.StdoutPipe()
				stderr, _ := cmd.StderrPipe()
				if err := cmd.Start(); err != nil {
					fmt.Fprintln(os.Stderr, "cannot start race worker:", err)
					os.Exit(2)
				}
				errc := make(chan string, 1)
				go func() { b, _ := ioutil.ReadAll(stderr); errc <- string(b) }()
				rd := bufio.NewReaderSize(stdout, 1<<20)
				cur, curDescr, finished := start, "", false
				for {
					l, err := rd.ReadString('\n')
					if err != nil {
						break
					}
					l = strings.TrimRight(l, "\n")
					switch {
					case l == "# done":
						finished = true
					case strings.HasPrefix(l, "# "):
						f := strings.SplitN(l[2:], " ", 2)
						cur, _ = strconv.Atoi(f[0])
						if len(f) > 1 {
							curDescr = f[1]
						}
						mu.Lock()
						out.Evaluations += G * iters
						out.Distinct++
						out.Nontrivial++
						if len(out.Samples) < 8 && cur%37 == 0 {
							out.Samples = append(out.Samples, "case "+strconv.Itoa(cur)+": "+truncate(describeRace(curDescr), 400))
						}
						mu.Unlock()
					case strings.HasPrefix(l, "! "):
						mu.Lock()
						out.Mismatches = append(out.Mismatches, caseOut{Stream: "race", Index: cur, Line: "RACE " + strconv.FormatUint(seed, 10) + " " + strconv.Itoa(cur), Text: describeRace(curDescr), Go: "concurrent result differs: " + l})
						mu.Unlock()
					}
				}
				cmd.Wait()
				errText := <-errc
				if finished {
					break
				}
				mu.Lock()
				kind := "crash"
				if strings.Contains(errText, "DATA RACE") {
					kind = "DATA RACE"
				}
				out.Crashes = append(out.Crashes, caseOut{Stream: "race", Index: cur, Line: "RACE " + strconv.FormatUint(seed, 10) + " " + strconv.Itoa(cur), Text: describeRace(curDescr), Go: kind + ": " + truncate(errText, 3000)})
				mu.Unlock()
				start = cur + procs
			}
		}(w)
	}
	wg.Wait()
	out.Kinds["goroutines"] = G
	out.Kinds["iterations_per_goroutine"] = iters
	if out.Mismatches == nil {
		out.Mismatches = []caseOut{}
	}
	if out.Crashes == nil {
		out.Crashes = []caseOut{}
	}
	out.Flags = []caseOut{}
	if len(out.Crashes) > 25 {
		out.Crashes = out.Crashes[:25]
	}
	if len(out.Mismatches) > 25 {
		out.Mismatches = out.Mismatches[:25]
	}
	out.WallS = time.Since(t0).Seconds()
	js, _ := json.MarshalIndent(out, "", " ")
	ioutil.WriteFile(outPath, js, 0644)
	return 0
}

func describeRace(d string) string {
	parts := strings.Split(d, " | ")
	for i, p := range parts {
		f := strings.SplitN(p, " ", 2)
		if e, err := unhexField(f[0]); err == nil && len(f) == 2 {
			parts[i] = strconv.Quote(e) + " on " + truncate(f[1], 200)
		}
	}
	return strings.Join(parts, " | ")
}
