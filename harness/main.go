package main

import (
	"bufio"
	"fmt"
	"os"
	"runtime"
	"runtime/debug"
	"strconv"
)

func envSeed() uint64 {
	if v := os.Getenv("VERIF_SEED"); v != "" {
		if n, err := strconv.ParseUint(v, 10, 64); err == nil {
			return n
		}
		if n, err := strconv.ParseInt(v, 10, 64); err == nil {
			return uint64(n)
		}
	}
	return 1
}

func main() {
	debug.SetMaxStack(256 << 20)
	if len(os.Args) < 2 {
		fmt.Fprintln(os.Stderr, "usage: harness worker|exec|dev|check ...")
		os.Exit(2)
	}
	switch os.Args[1] {
	case "worker":
		workerMain(os.Args[2:])
	case "exec": // answer protocol lines from stdin (replay)
		sc := bufio.NewScanner(os.Stdin)
		sc.Buffer(make([]byte, 1<<20), 1<<28)
		for sc.Scan() {
			fmt.Println(execLine(sc.Text()).String())
		}
	case "gen": // print the lines of one case
		idx, _ := strconv.Atoi(os.Args[3])
		for _, l := range genCase(os.Args[2], envSeed(), idx).lines {
			fmt.Println(l)
		}
	case "dev":
		count, _ := strconv.Atoi(os.Args[3])
		self, _ := os.Executable()
		cfg := runCfg{self: self, driver: driverPath(), seed: envSeed(), workers: runtime.NumCPU()}
		st := newStats()
		runStream(cfg, os.Args[2], count, st)
		fmt.Printf("evals=%d distinct=%d nontrivial=%d bad=%d flags=%d crashes=%d\n", st.evals, len(st.distinct), st.nontrivial, len(st.bad), len(st.flags), len(st.crashes))
		for k, v := range st.kinds {
			fmt.Printf("  %-24s %d\n", k, v)
		}
		show := func(title string, rs []result) {
			for i, r := range rs {
				if i >= 15 {
					break
				}
				fmt.Printf("%s [%s #%d] %s\n    go:   %s\n    lean: %s\n", title, r.stream, r.idx, truncate(describe(r.line), 400), tail(r.goAns, 300), tail(r.leanAns, 300))
			}
		}
		show("MISMATCH", st.bad)
		show("FLAG", st.flags)
		show("CRASH", st.crashes)
		for _, s := range st.samples {
			fmt.Println("sample:", s)
		}
	case "check":
		os.Exit(checkMain(os.Args[2:]))
	case "race":
		os.Exit(raceMain(os.Args[2:]))
	case "raceworker":
		raceWorker(os.Args[2:])
	case "lexprobe":
		os.Exit(lexProbeMain())
	case "fnprobe":
		os.Exit(fnProbeMain())
	}
}

func driverPath() string {
	if v := os.Getenv("VERIF_DRIVER"); v != "" {
		return v
	}
	return "/verif/lean/.lake/build/bin/driver"
}

func tail(s string, n int) string {
	if len(s) > n {
		return s[:n/2] + "…" + s[len(s)-n/2:]
	}
	return s
}
