package main

// "harness check <property> <tier> <out.json> [--spec]": run the streams
// assigned to a property and write what was observed as JSON; the verdict is
// taken by /verif/check.

import (
	"encoding/json"
	"fmt"
	"io/ioutil"
	"os"
	"runtime"
	"sort"
	"time"
)

type streamPlan struct {
	name     string
	quick    int
	thorough int
}

func syntaxEnumCount(maxLen int) int {
	c, span := 0, 1
	for n := 1; n <= maxLen; n++ {
		span *= len(tokenAlphabet)
		c += span
	}
	return c
}

func plans() map[string][]streamPlan {
	return map[string][]streamPlan{
		"C01": {{"core", 25000, 500000}, {"expr", 6000, 100000}, {"depth", depthCount(), depthCount()}, {"pairs", pairCount(), pairCount()}, {"size", sizeCount(), sizeCount()}},
		"C02": {{"proj", 25000, 500000}, {"vproj", 8000, 150000}, {"slice", 3000, 100000}, {"pairs", pairCount(), pairCount()}, {"typed", 1500, 60000}, {"size", sizeCount(), sizeCount()}},
		"C03": {{"prec", 20000, 400000}, {"spelling", 6000, 150000}, {"syntax-enum", syntaxEnumCount(3), syntaxEnumCount(4)}, {"depth", depthCount(), depthCount()}},
		"C04": {{"syntax-enum", syntaxEnumCount(3), syntaxEnumCount(4)}, {"syntax", 15000, 500000}, {"hostile", 4000, 50000}, {"depth", depthCount(), depthCount()}},
		"C05": {{"hostile", 15000, 300000}, {"bytes", 20000, 500000}, {"expr", 10000, 200000}, {"fnmatrix", matrixCount(2), matrixCount(3)}, {"fnseq", 8000, 100000}, {"depth", depthCount(), depthCount()}, {"fn", 8000, 200000}, {"pairs", 60000, pairCount()}, {"size", sizeCount(), sizeCount()}},
		"C06": {{"fnpaths", 25000, 500000}, {"api", 1500, 40000}, {"expr", 5000, 100000}, {"pairs", 60000, pairCount()}, {"size", sizeCount(), sizeCount()}},
		"C07": {{"truth", truthCount(), truthCount()}, {"truth-nest", 10000, 500000}, {"pairs", pairCount(), pairCount()}},
		"C08": {{"slice", sliceCount(6), sliceCount(9)}, {"slice-big", sliceBigCount() + 5000, sliceBigCount() + 300000}, {"typed", 3000, 60000}},
		"C09": {{"fn", 40000, 800000}, {"expr", 5000, 100000}, {"edge", edgeCount(), edgeCount()}, {"fnseq", 6000, 100000}, {"pairs", pairCount(), pairCount()}, {"size", sizeCount(), sizeCount()}},
		"C10": {{"fnmatrix", matrixCount(3), matrixCount(4)}, {"fnseq", 15000, 300000}, {"expr", 5000, 100000}, {"pairs", 60000, pairCount()}, {"bigerr", bigErrCount(), bigErrCount()}},
		"C11": {{"errctx", errCtxCount(true), errCtxCount(true)}, {"expr", 8000, 300000}, {"proj", 4000, 100000}, {"pairs", pairCount(), pairCount()}, {"bigerr", bigErrCount(), bigErrCount()}},
		"C13": {{"api", 3000, 120000}, {"expr", 4000, 100000}, {"pairs", 40000, pairCount()}, {"typed", 1500, 60000}},
		"C14": {{"ident", identExhaustive(2) + 8000, identExhaustive(2) + 300000}, {"unquoted", unquotedCount(), unquotedCount()}, {"spelling", 5000, 100000}, {"jsoncodec", 4000, 100000}, {"edge", edgeCount(), edgeCount()}, {"size", sizeCount(), sizeCount()}},
		"C15": {{"pipe", 15000, 400000}, {"subst", 10000, 300000}, {"depth", depthCount(), depthCount()}, {"pairs", pairCount(), pairCount()}, {"typed", 1500, 60000}},
		"C16": {{"jsonish", 4000, 100000}, {"expr", 15000, 300000}, {"fn", 10000, 200000}, {"jsoncodec", 3000, 100000}, {"edge", edgeCount(), edgeCount()}, {"pairs", pairCount(), pairCount()}, {"size", sizeCount(), sizeCount()}},
		"C17": {{"bytes", 20000, 500000}, {"syntax-enum", syntaxEnumCount(3), syntaxEnumCount(4)}, {"syntax", 8000, 200000}},
		"C18": {{"typed", 8000, 300000}, {"typedmodel", 4000, 150000}},
		"C19": {{"cli", 1200, 30000}, {"jsoncodec", 4000, 100000}},
	}
}

type caseOut struct {
	Stream string `json:"stream"`
	Index  int    `json:"index"`
	Line   string `json:"line"`
	Text   string `json:"text"`
	Go     string `json:"go"`
	Lean   string `json:"lean,omitempty"`
	// History: the protocol lines executed in the same process directly before Line (the
	// history-poisoning call of the case); a replay runs them first.
	History []string `json:"history,omitempty"`
}

type checkOut struct {
	Property    string         `json:"property"`
	Tier        string         `json:"tier"`
	Seed        uint64         `json:"seed"`
	Spec        bool           `json:"spec_tables"`
	Streams     map[string]int `json:"streams"`
	Evaluations int            `json:"evaluations"`
	Distinct    int            `json:"distinct"`
	Nontrivial  int            `json:"distinct_nontrivial"`
	Kinds       map[string]int `json:"kinds"`
	Samples     []string       `json:"samples"`
	Mismatches  []caseOut      `json:"mismatches"`
	Flags       []caseOut      `json:"flags"`
	Crashes     []caseOut      `json:"crashes"`
	WallS       float64        `json:"wall_s"`
}

func toCases(rs []result, max int) []caseOut {
	sort.Slice(rs, func(i, j int) bool { return len(rs[i].line) < len(rs[j].line) })
	out := []caseOut{}
	for i, r := range rs {
		if i >= max {
			break
		}
		out = append(out, caseOut{Stream: r.stream, Index: r.idx, Line: r.line, Text: truncate(describe(r.line), 2000), Go: truncate(r.goAns, 4000), Lean: truncate(r.leanAns, 4000), History: []string{zLine(envSeed(), r.idx)}})
	}
	return out
}

func checkMain(args []string) int {
	if len(args) < 3 {
		fmt.Fprintln(os.Stderr, "usage: harness check <property> <tier> <out.json> [--spec]")
		return 2
	}
	prop, tier, outPath := args[0], args[1], args[2]
	spec := len(args) > 3 && args[3] == "--spec"
	plan, ok := plans()[prop]
	if !ok {
		fmt.Fprintln(os.Stderr, "no line-protocol streams for", prop)
		return 2
	}
	self, _ := os.Executable()
	cfg := runCfg{self: self, driver: driverPath(), seed: envSeed(), workers: runtime.NumCPU()}
	if spec {
		cfg.leanArgs = []string{"--spec"}
	}
	st := newStats()
	t0 := time.Now()
	out := checkOut{Property: prop, Tier: tier, Seed: cfg.seed, Spec: spec, Streams: map[string]int{}}
	if spec {
		// the search after a broken proof obligation or tie: whatever the property, also walk the streams that exercise the
		// regenerated tables directly (every unquoted-identifier shape, the token-sequence enumeration, function signatures)
		have := map[string]bool{}
		for _, p := range plan {
			have[p.name] = true
		}
		for _, extra := range []streamPlan{{"unquoted", unquotedCount(), unquotedCount()}, {"syntax-enum", syntaxEnumCount(3), syntaxEnumCount(3)}, {"fnmatrix", matrixCount(2), matrixCount(2)}} {
			if !have[extra.name] {
				plan = append(plan, extra)
			}
		}
	}
	for _, p := range plan {
		n := p.quick
		if tier == "thorough" {
			n = p.thorough
		}
		out.Streams[p.name] = n
		runStream(cfg, p.name, n, st)
	}
	out.Evaluations, out.Distinct, out.Nontrivial = st.evals, len(st.distinct), st.nontrivial
	out.Kinds, out.Samples = st.kinds, st.samples
	out.Mismatches, out.Flags, out.Crashes = toCases(st.bad, 25), toCases(st.flags, 25), toCases(st.crashes, 25)
	out.WallS = time.Since(t0).Seconds()
	js, _ := json.MarshalIndent(out, "", " ")
	if err := ioutil.WriteFile(outPath, js, 0644); err != nil {
		fmt.Fprintln(os.Stderr, err)
		return 2
	}
	return 0
}
