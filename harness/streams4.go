package main

// Streams added after the seventh round of seeded changes.

import (
	"strconv"
	"strings"
)

// depth: the same small expression nested to a ladder of depths (every depth up to 40, then the
// neighbourhoods of the round numbers a nesting limit would be set at), in six nesting forms, alone and
// on either side of a pipe.  The grammar has no depth limit, so the model accepts and evaluates all of
// them; an implementation limit, or a counter that leaks between calls, disagrees at its boundary.
var depthLadder = func() []int {
	out := []int{}
	for d := 1; d <= 40; d++ {
		out = append(out, d)
	}
	for _, c := range []int{64, 100, 128, 200, 256, 500, 512, 1000, 1024, 2048, 4096, 10000} {
		out = append(out, c-1, c, c+1)
	}
	return append(out, 300, 3000)
}()

const depthForms = 6

func nestForm(form, d int, leaf string) string {
	switch form {
	case 0:
		return strings.Repeat("(", d) + leaf + strings.Repeat(")", d)
	case 1:
		return strings.Repeat("[", d) + leaf + strings.Repeat("]", d)
	case 2:
		return strings.Repeat("!", d) + leaf
	case 3:
		return strings.Repeat("{k: ", d) + leaf + strings.Repeat("}", d)
	case 4:
		return strings.Repeat("not_null(", d) + leaf + strings.Repeat(")", d)
	default:
		return strings.Repeat("a[?", d) + leaf + strings.Repeat("]", d)
	}
}

// (form, depth) pairs: every form up to depth 1025; beyond that only parentheses, brackets and `!`
// (the model's parser is quadratic in the depth of hashes, calls and filters).
var depthPairs = func() [][2]int {
	out := [][2]int{}
	for _, d := range depthLadder {
		for f := 0; f < depthForms; f++ {
			if d <= 1025 || f <= 2 {
				out = append(out, [2]int{f, d})
			}
		}
	}
	return out
}()

func depthCount() int { return len(depthPairs) * 3 }

func streamDepth(seed uint64, idx int) caseT {
	pos := idx % 3
	idx /= 3
	form, d := depthPairs[idx%len(depthPairs)][0], depthPairs[idx%len(depthPairs)][1]
	doc := canonOf(map[string]interface{}{"a": []interface{}{map[string]interface{}{"a": []interface{}{1.0}}, 2.0}, "k": 1.0})
	f := nestForm(form, d, "a")
	switch pos {
	case 0:
		return caseT{lines: []string{"C " + hexField(f), "S " + hexField(f) + " " + doc}}
	case 1:
		return caseT{lines: []string{"P " + hexField("@") + " " + hexField(f) + " " + doc, "S " + hexField("@ | "+f) + " " + doc}}
	default:
		return caseT{lines: []string{"P " + hexField(f) + " " + hexField("@") + " " + doc, "S " + hexField("["+f+", "+f+"]") + " " + doc}}
	}
}

// Values whose magnitude or sign sits on a boundary of some fast path: ±0, the edges of the exact
// integer range of float64, of int64 / uint64, of the decimal / exponent switch of the JSON encoder,
// the largest and smallest finite numbers.
var edgeNums = []string{"-0", "-0.0", "0", "9007199254740991", "9007199254740992", "9007199254740993", "-9007199254740992",
	"9223372036854775807", "9223372036854775808", "-9223372036854775808", "-9223372036854775809", "18446744073709551615", "18446744073709551616",
	"4294967295", "4294967296", "2147483647", "2147483648", "-2147483648", "-2147483649",
	"1e20", "1e21", "99999999999999999999", "100000000000000000000", "999999999999999900000", "1e-6", "1e-7", "0.000001", "0.0000009",
	"1.7976931348623157e308", "5e-324", "2.2250738585072014e-308", "0.1", "1e15", "1e16", "123456789012345680000", "1.5e300", "-1e21", "-1e-7"}

func init() {
	streamTable["depth"] = streamDepth
	streamTable["edge"] = streamEdge
}

// edge: number-valued functions, literals and serialisation at the edge magnitudes above.
func edgeCount() int { return len(edgeNums) * 8 }
func streamEdge(seed uint64, idx int) caseT {
	n := edgeNums[idx%len(edgeNums)]
	form := (idx / len(edgeNums)) % 8
	doc := mustJSON(`{"n":` + n + `,"arr":[` + n + `,1],"s":"` + n + `"}`)
	var e string
	switch form {
	case 0:
		e = "`" + n + "`"
	case 1:
		e = "to_string(`" + n + "`)"
	case 2:
		e = "[to_string(n), to_number(s), to_number(to_string(n)) == n]"
	case 3:
		e = "[abs(n), ceil(n), floor(n), sum(arr), avg(arr), max(arr), min(arr)]"
	case 4:
		e = "[n == `" + n + "`, n < `0`, n >= `" + n + "`, sort(arr), to_string(arr)]"
	case 5:
		e = "`[" + n + ", {\"k\": " + n + "}]` | [@[0], @[1].k, to_string(@)]"
	case 6:
		e = "join(',', [to_string(n), to_string(`" + n + "`)])"
	default:
		e = "arr[?@ == `" + n + "`] | length(@)"
	}
	return caseT{lines: []string{"C " + hexField(e), "S " + hexField(e) + " " + canonOf(doc)}}
}

var _ = strconv.Itoa

func (s fnSig) hasRef() bool {
	for _, p := range s.params {
		if p == "expref" {
			return true
		}
	}
	return false
}
