package main

// Streams added after the seventh round of seeded changes.

import (
	"fmt"
	"strconv"
	"strings"
)

// depth: the same small expression nested to a ladder of depths (every depth up to 40, then the
// neighbourhoods of the round numbers a nesting limit would be set at), in six nesting forms, alone and
// on either side of a pipe.  The grammar has no depth limit, so the model accepts and evaluates all of
// them; an implementation limit, or a counter that leaks between calls, disagrees at its boundary.
var depthLadder = func() []int {
	out := []int{}
	for d := 1; d <= 40; d++ {
		out = append(out, d)
	}
	for _, c := range []int{64, 100, 128, 200, 256, 500, 512, 1000, 1024, 2048, 4096, 10000} {
		out = append(out, c-1, c, c+1)
	}
	return append(out, 300, 3000)
}()

const depthForms = 6

func nestForm(form, d int, leaf string) string {
	switch form {
	case 0:
		return strings.Repeat("(", d) + leaf + strings.Repeat(")", d)
	case 1:
		return strings.Repeat("[", d) + leaf + strings.Repeat("]", d)
	case 2:
		return strings.Repeat("!", d) + leaf
	case 3:
		return strings.Repeat("{k: ", d) + leaf + strings.Repeat("}", d)
	case 4:
		return strings.Repeat("not_null(", d) + leaf + strings.Repeat(")", d)
	default:
		return strings.Repeat("a[?", d) + leaf + strings.Repeat("]", d)
	}
}

// (form, depth) pairs: every form up to depth 1025; beyond that only parentheses, brackets and `!`
// (the model's parser is quadratic in the depth of hashes, calls and filters).
var depthPairs = func() [][2]int {
	out := [][2]int{}
	for _, d := range depthLadder {
		for f := 0; f < depthForms; f++ {
			if d <= 1025 || f <= 2 {
				out = append(out, [2]int{f, d})
			}
		}
	}
	return out
}()

func depthCount() int { return len(depthPairs) * 3 }

func streamDepth(seed uint64, idx int) caseT {
	pos := idx % 3
	idx /= 3
	form, d := depthPairs[idx%len(depthPairs)][0], depthPairs[idx%len(depthPairs)][1]
	doc := canonOf(map[string]interface{}{"a": []interface{}{map[string]interface{}{"a": []interface{}{1.0}}, 2.0}, "k": 1.0})
	f := nestForm(form, d, "a")
	switch pos {
	case 0:
		return caseT{lines: []string{"C " + hexField(f), "S " + hexField(f) + " " + doc}}
	case 1:
		return caseT{lines: []string{"P " + hexField("@") + " " + hexField(f) + " " + doc, "S " + hexField("@ | "+f) + " " + doc}}
	default:
		return caseT{lines: []string{"P " + hexField(f) + " " + hexField("@") + " " + doc, "S " + hexField("["+f+", "+f+"]") + " " + doc}}
	}
}

// Values whose magnitude or sign sits on a boundary of some fast path: ±0, the edges of the exact
// integer range of float64, of int64 / uint64, of the decimal / exponent switch of the JSON encoder,
// the largest and smallest finite numbers.
var edgeNums = []string{"-0", "-0.0", "0", "9007199254740991", "9007199254740992", "9007199254740993", "-9007199254740992",
	"9223372036854775807", "9223372036854775808", "-9223372036854775808", "-9223372036854775809", "18446744073709551615", "18446744073709551616",
	"4294967295", "4294967296", "2147483647", "2147483648", "-2147483648", "-2147483649",
	"1e20", "1e21", "99999999999999999999", "100000000000000000000", "999999999999999900000", "1e-6", "1e-7", "0.000001", "0.0000009",
	"1.7976931348623157e308", "5e-324", "2.2250738585072014e-308", "0.1", "1e15", "1e16", "123456789012345680000", "1.5e300", "-1e21", "-1e-7"}

func init() {
	streamTable["depth"] = streamDepth
	streamTable["edge"] = streamEdge
}

// edge: number-valued functions, literals and serialisation at the edge magnitudes above.
func edgeCount() int { return len(edgeNums) * 8 }
func streamEdge(seed uint64, idx int) caseT {
	n := edgeNums[idx%len(edgeNums)]
	form := (idx / len(edgeNums)) % 8
	doc := mustJSON(`{"n":` + n + `,"arr":[` + n + `,1],"s":"` + n + `"}`)
	var e string
	switch form {
	case 0:
		e = "`" + n + "`"
	case 1:
		e = "to_string(`" + n + "`)"
	case 2:
		e = "[to_string(n), to_number(s), to_number(to_string(n)) == n]"
	case 3:
		e = "[abs(n), ceil(n), floor(n), sum(arr), avg(arr), max(arr), min(arr)]"
	case 4:
		e = "[n == `" + n + "`, n < `0`, n >= `" + n + "`, sort(arr), to_string(arr)]"
	case 5:
		e = "`[" + n + ", {\"k\": " + n + "}]` | [@[0], @[1].k, to_string(@)]"
	case 6:
		e = "join(',', [to_string(n), to_string(`" + n + "`)])"
	default:
		e = "arr[?@ == `" + n + "`] | length(@)"
	}
	return caseT{lines: []string{"C " + hexField(e), "S " + hexField(e) + " " + canonOf(doc)}}
}

var _ = strconv.Itoa

func (s fnSig) hasRef() bool {
	for _, p := range s.params {
		if p == "expref" {
			return true
		}
	}
	return false
}

// pairs: EVERY (context, inner expression) pair from two catalogues that between them contain every node type, every
// built-in function and the usual literal / slice / projection / filter shapes, on a small set of documents chosen for
// their shapes (null members, missing keys, arrays mixing objects with scalars and nulls, empty containers, nested
// arrays, strings that look like numbers or JSON).  Two-feature interactions — a function after a dot on a null left
// side, a filter whose elements are not objects, a projection feeding a pipe into another projection, a slice inside a
// slice, a literal on one side of a comparison with a field on the other — are all members of this product, so they
// are covered by construction rather than by the luck of a random draw.  Objects that are iterated (`*`, keys, values)
// have one member, so no result depends on Go's map order.
var pairInner = []string{
	"@", "a", "b", "n", "s", "arr", "nums", "mix", "obj", "one", "empty", "missing", "nul", "a.b", "obj.k", "one.k", "missing.x", "nul.x", "arr[0]", "arr[-1]", "arr[5]", "nums[1]", "mix[2]",
	"arr[0].a", "arr[1:]", "nums[::-1]", "nums[:2]", "mix[1::2]", "empty[0:1]", "s[0:1]", "arr[*]", "arr[*].a", "mix[*].a", "nums[*]", "arr[]", "nest[]", "nest[][]", "mix[]", "arr[?a]", "arr[?a == `1`]",
	"mix[?a]", "mix[?@]", "mix[?a == `null`]", "nums[?@ > `1`]", "arr[:].a", "arr[::].a", "mix[:]", "arr[:] | [0]", "nums[ : ]", "arr[0:].a", "mix[].type(@)", "nest[].type(@)", "mix[].abs(@)", "mix[*].type(@)", "@ || `{\"a\":{\"b\":1}}`", "nul || `{\"a\":1,\"k\":2}`", "missing || `[{\"a\":1},2]`", "!@ && `[1,2]`", "merge(`{}`, obj)", "merge(`{}`, one, obj)",
	"mix[?type(@) == 'object'].a", "mix[?type(@) == 'string'].length(@)", "mix[?type(@) == 'number'].abs(@)", "mix[?type(a) == 'number'].abs(a)", "mix[?abs(@) > `0`]", "mix[?type(@) == 'array'][0].a",
	"arr[?type(a) == 'number'].abs(a)", "mix[?type(@) != 'null'].type(@)", "sort_by(arr, &a)[-1]", "sort_by(arr, &a)[0]", "sort_by(arr, &a)[*].n", "max_by(arr, &a).n", "min_by(arr, &a).n", "sort(nums)[-1]", "sort(nums)[0]",
	"to_string(bs)", "to_string(obj2)", "reverse(arr)[0].n", "sort_by(arr, &n)[-1].a", "one.*", "one.*.k", "[a, b]", "[a, missing]", "[@]", "{x: a, y: missing}", "{x: @}", "a || b",
	"missing || a", "nul || `0`", "a && b", "missing && a", "empty && a", "!a", "!missing", "!empty", "a == b", "a == a", "a != nul", "missing == nul", "n < `2`", "n >= n", "s < `1`", "missing < `1`",
	"a | @", "arr | [0]", "missing | type(@)", "`1`", "`null`", "`[1,2]`", "`{\"k\":1}`", "`\"x\"`", "'raw'", "''", "`[]`", "`{}`", "`false`", "`0`", "(a)", "(arr)[0]", "(arr[*].a)[0]",
	"abs(n)", "abs(nums[0])", "avg(nums)", "avg(empty)", "ceil(n)", "floor(n)", "contains(s, 'a')", "contains(nums, `1`)", "contains(mix, `null`)", "ends_with(s, 'c')", "starts_with(s, 'a')", "join('-', strs)",
	"keys(one)", "values(one)", "length(s)", "length(arr)", "length(obj)", "map(&a, arr)", "map(&a, mix)", "map(&@, empty)", "max(nums)", "min(nums)", "max(strs)", "max(empty)", "max_by(arr, &a)",
	"min_by(arr, &a)", "max_by(empty, &a)", "merge(obj, one)", "merge(obj)", "not_null(missing, a)", "not_null(nul, missing)", "not_null(a)", "reverse(nums)", "reverse(s)", "sort(nums)", "sort(strs)",
	"sort_by(arr, &a)", "sort_by(empty, &a)", "sum(nums)", "sum(empty)", "to_array(a)", "to_array(arr)", "to_array(nul)", "to_number(s)", "to_number(num_s)", "to_number(n)", "to_number(nul)",
	"to_string(a)", "to_string(s)", "to_string(obj)", "to_string(nul)", "type(a)", "type(missing)", "type(arr)", "type(obj)", "type(s)", "type(nul)",
}

var pairOuter = []string{
	"%s", "(%s)", "%s.a", "%s.k", "%s.b.c", "%s[0]", "%s[-1]", "%s[1:]", "%s[::-1]", "%s[:1]", "%s[*]", "%s[*].a", "%s[]", "%s[][]", "%s[?a]", "%s[?@]", "%s[?@ == `null`]", "%s[?a == `1`]", "%s[?type(@) == 'number']",
	"%s | @", "%s | [0]", "%s | type(@)", "%s | length(@)", "%s | [*].a", "%s | [*].type(@)", "%s | [?@]", "@ | %s", "a | %s", "missing | %s", "arr | %s", "arr[0] | %s", "mix | %s",
	"%s || a", "%s || 'd'", "%s && a", "a || %s", "missing || %s", "a && %s", "missing && %s", "!%s", "!(%s)", "%s == a", "%s == `null`", "%s != `[]`", "a == %s", "`1` == %s", "%s < `2`", "%s >= n", "n < %s", "n > (%s)",
	"[%s]", "[%s, a]", "[a, %s, %s]", "{x: %s}", "{x: a, y: %s}", "{x: %s, x: a}", "{x: a, x: %s}", "{x: %s, y: a, x: b}.x", "arr[*].[%s]", "arr[*].{v: %s}", "arr[?%s]", "mix[?%s]", "arr[?a == (%s)]", "mix[*].[%s]", "nest[].[%s]", "one.*.[%s]", "arr[1:].[%s]", "mix[*].{v: %s}", "mix[?a == (%s)]", "mix[?(%s) == `null`]",
	"missing.%s", "nul.%s", "a.%s", "arr[0].%s", "arr[5].%s", "obj.%s", "mix[0].%s", "[%s][0]", "[%s][*]", "{x: %s}.x", "(%s)[0]", "(%s).a",
	"abs(%s)", "avg(%s)", "ceil(%s)", "contains(%s, a)", "contains(arr, %s)", "contains(s, %s)", "ends_with(%s, 'c')", "floor(%s)", "join(',', %s)", "join(%s, strs)", "keys(%s)", "length(%s)", "map(&%s, arr)",
	"map(&%s, mix)", "map(&a, %s)", "map(&type(@), %s)", "max(%s)", "max_by(%s, &a)", "max_by(arr, &%s)", "merge(%s)", "merge(obj, %s)", "min(%s)", "min_by(%s, &a)", "not_null(%s)", "not_null(%s, a)", "not_null(missing, %s)",
	"reverse(%s)", "sort(%s)", "sort_by(%s, &a)", "sort_by(arr, &%s)", "starts_with(%s, 'a')", "sum(%s)", "to_array(%s)", "to_number(%s)", "to_string(%s)", "type(%s)", "values(%s)",
	"to_array(%s)[0]", "sort_by(%s, &a)[0]", "length(to_array(%s))", "type(%s) == 'null'", "[type(%s), %s]",
}

var pairDocs = []string{
	`{"a":1,"b":2,"n":1.5,"s":"abc","num_s":"12","arr":[{"a":1,"n":0},{"a":2,"n":1},{"a":1,"n":2},{"a":2,"n":3}],"bs":"x\\u003cy\\u0026\\\\u003e","obj2":{"\\u003c":"<&>"},"nums":[3,1,2],"strs":["b","a","c"],"mix":[{"a":1},null,1,"s",[{"a":2}],{"b":3},true,{"a":null}],"obj":{"k":1,"j":[1]},"one":{"k":{"k":5}},"empty":[],"nul":null,"nest":[[1,[2]],[],[[3]],4]}`,
	`{"a":{"b":{"c":7}},"b":null,"n":-2,"s":"","num_s":"1e2","arr":[],"nums":[],"strs":[],"mix":[],"obj":{},"one":{"k":null},"empty":[],"nul":null,"nest":[]}`,
	`{"a":[1,2],"b":"x","n":0,"s":"[1, 2]","num_s":" 1","arr":[{"a":"x"},{"a":"y"}],"nums":[1],"strs":["é","z"],"mix":[null,null],"obj":{"k":[{"a":1}]},"one":{"a":1},"empty":[],"nul":null,"nest":[[],[[]]]}`,
	`null`, `[{"a":1,"b":[1,2]},{"a":null},3,null,"s",[4]]`, `"text"`, `5`, `{"a":false,"b":true,"n":2,"s":"a","num_s":"nan","arr":[{"a":false},{"a":0},{"a":""},{"a":[]}],"nums":[2,2,1],"strs":["a","a"],"mix":[0,"",[],{},false],"obj":{"a":{"a":{"a":1}}},"one":{"k":[]},"empty":[],"nul":null,"nest":[[null],[null,[null]]]}`,
}

func pairCount() int { return len(pairInner) * len(pairOuter) * len(pairDocs) }

// streamPairs enumerates the product in an order that visits every (outer, inner) pair on the first document before any
// second document, so that a prefix of the stream already holds all the pairs.
func streamPairs(seed uint64, idx int) caseT {
	idx = (idx + int(seed%7919)*104729) % pairCount()
	np := len(pairInner) * len(pairOuter)
	d := (idx / np) % len(pairDocs)
	k := idx % np
	in := pairInner[k%len(pairInner)]
	out := pairOuter[(k/len(pairInner))%len(pairOuter)]
	e := strings.Replace(out, "%s", in, -1)
	op := "S"
	if strings.HasPrefix(out, "keys(") || strings.HasPrefix(out, "values(") {
		op = "SU" // the members of a multi-member object come in no particular order: compared as a multiset
	}
	return caseT{lines: []string{op + " " + hexField(e) + " " + canonOf(mustJSON(pairDocs[d]))}}
}

func init() { streamTable["pairs"] = streamPairs }

// size: the same small set of operations on inputs that are LARGE in one dimension — identifiers and strings of 63…65 536
// bytes (ASCII and multi-byte), arrays and objects of the sizes in sizeLadder, numbers with hundreds of digits, expressions
// with hundreds of members — where a fixed buffer, a threshold between two algorithms, a length stored in a narrow type or a
// quadratic loop would show.
var sizeLens = []int{63, 64, 65, 127, 128, 129, 255, 256, 257, 511, 512, 513, 1000, 1023, 1024, 1025, 4095, 4096, 4097, 65535, 65536, 65537}

func sizeCount() int { return (len(sizeLens)*6 + len(sizeLadder)*10 + 24) }

func streamSize(seed uint64, idx int) caseT {
	g := genFor(seed, "size", idx)
	nl, na := len(sizeLens)*6, len(sizeLadder)*10
	switch {
	case idx < nl:
		n := sizeLens[idx%len(sizeLens)]
		unit := []string{"a", "k9_", "é", "世", "😀", "x y"}[idx/len(sizeLens)]
		s := strings.Repeat(unit, n/len(unit)+1)[:n/len(unit)*len(unit)]
		doc := map[string]interface{}{s: 1.0, "s": s, "arr": []interface{}{s, s + "b", "a" + s}}
		q := jsonText(s)
		lines := []string{"S " + hexField(q) + " " + canonOf(doc), "S " + hexField("[length(s), reverse(s) == s, contains(s, 'b'), starts_with(s, 'a'), ends_with(s, 'a'), s == "+rawTok(s)+", sort(arr)[0] == s, max(arr) == s, join('', arr) == s, to_string(s) == s]") + " " + canonOf(doc),
			"S " + hexField("["+rawTok(s)+", "+literalTok(s)+", "+q+"] | [length(@[0]), @[0] == @[1], @[2]]") + " " + canonOf(doc)}
		if unquotedRe.MatchString(s) {
			lines = append(lines, "S "+hexField(s+" | [@, "+s+"]")+" "+canonOf(doc), "C "+hexField(s+"."+s+"["+strconv.Itoa(n)+"]"))
		}
		return caseT{lines: lines}
	case idx < nl+na:
		k := idx - nl
		n := sizeLadder[k%len(sizeLadder)]
		form := k / len(sizeLadder)
		arr := make([]interface{}, n)
		obj := map[string]interface{}{}
		for i := range arr {
			arr[i] = map[string]interface{}{"a": float64((i * 7919) % 101), "s": strconv.Itoa((i * 31) % 17), "n": float64(i), "l": []interface{}{float64(i), nil}}
			obj["k"+strconv.Itoa(i)] = float64(i)
		}
		doc := map[string]interface{}{"arr": arr, "obj": obj}
		e := []string{
			"[length(arr), arr[-1].n, arr[" + strconv.Itoa(n-1) + "].n, arr[" + strconv.Itoa(n) + "], arr[::-1][0].n, arr[" + strconv.Itoa(n/2) + ":][0].n]",
			"[sort_by(arr, &a)[*].n, sort_by(arr, &s)[-1].n, max_by(arr, &a).n, min_by(arr, &s).n]",
			"[sum(arr[*].a), avg(arr[*].n), max(arr[*].a), min(arr[*].s), length(arr[?a > `50`]), arr[?n == `" + strconv.Itoa(n-1) + "`].n]",
			"[length(arr[].l[]), arr[*].l[0] | length(@), map(&n, arr)[-1], reverse(arr)[0].n, length(to_string(arr)) > `10`]",
			"[join(',', arr[*].s) | length(@), sort(arr[*].s)[0], sort(arr[*].n)[-1], contains(arr[*].n, `" + strconv.Itoa(n-1) + "`), contains(arr[*].n, `" + strconv.Itoa(n) + "`)]",
			"[length(obj), obj.k0, obj.k" + strconv.Itoa(n-1) + ", obj.k" + strconv.Itoa(n) + ", length(keys(obj)), sum(values(obj)), sort(keys(obj))[0], length(obj.*)]",
			"[length(merge(obj, `{\"z\":1}`)), merge(obj, obj) == obj, length(to_string(obj)) > `10`, type(obj), obj == obj]",
			"arr[*].{n: n, a: a} | [length(@), @[-1], @[0]]",
			"arr[?n >= `" + strconv.Itoa(n-2) + "`].[n, s, l[0]]",
			"[arr[1:" + strconv.Itoa(n) + ":" + strconv.Itoa(n/3+1) + "][*].n, arr[::" + strconv.Itoa(-(n/2 + 1)) + "][*].n, not_null(arr[" + strconv.Itoa(n+5) + "], arr[0].n)]",
		}[form]
		return caseT{lines: []string{"S " + hexField(e) + " " + canonOf(doc)}}
	default:
		k := idx - nl - na
		big := []string{"123456789012345678901234567890", "-" + strings.Repeat("9", 309), "0." + strings.Repeat("0", 400) + "1", strings.Repeat("1", 400) + "e-399", "1" + strings.Repeat("0", 308), "1e308", "1.0000000000000000000000000000000001",
			"4.9406564584124654e-324", "2.4703282292062327e-324", "179769313486231570000000000000000000000000000000000000000000000000000000000000000000000000000000000000000000000000000000000000000000000000000000000000000000000000000000000000000000000000000000000000000000000000000000000000000000000000000000000000000000000000000000000000000000000000000000000000"}
		spell := []string{"`1e2`", "`1E+2`", "`-0.5e-1`", "`[1.0, 1.50, -0e0]`", "`\"a\\\"b\\\\c\"`", "`\"\\u00e9\\ud83d\\ude00\"`", "\"\\u0061\"", "\"caf\\u00e9\"", "'/* x */'", "`\"// a\"`", "'# not a comment'", "` \\n\\t{ \"a\" : [ 1 , 2 ] } `",
			"\"a b\".\"c\\td\"", "`\"\\/\"`"}
		if k < len(big) {
			n := big[k]
			return caseT{lines: []string{"C " + hexField("`"+n+"`"), "S " + hexField("[`"+n+"`, to_number('"+n+"'), to_string(`"+n+"`), `"+n+"` == to_number('"+n+"')]") + " null"}}
		}
		e := spell[(k-len(big))%len(spell)]
		doc := map[string]interface{}{"a": 1.0, "café": 2.0, "a b": map[string]interface{}{"c\td": 3.0}}
		_ = g
		return caseT{lines: []string{"C " + hexField(e), "S " + hexField("["+e+", "+e+"]") + " " + canonOf(doc)}}
	}
}

func init() { streamTable["size"] = streamSize }

// bigerr: functions that order or combine an array, on arrays LONGER than the thresholds of a sorting routine (12, 20, 32, 64) in
// which ONE element has a key of another type, at a chosen position, the other keys ascending / descending / equal / scattered:
// the call is an error wherever the odd element sits, however long the array is (or whatever the model says it is — the
// comparison is with the model).
var (
	bigErrN     = []int{13, 21, 24, 33, 41, 64, 65, 90}
	bigErrKinds = []string{"str-among-num", "num-among-str", "null", "bool", "array", "none"}
	bigErrFns   = []string{"sort_by(arr, &k)[*].i", "max_by(arr, &k).i", "min_by(arr, &k).i", "sort(arr[*].k)", "max(arr[*].k)", "min(arr[*].k)", "sum(arr[*].k)", "avg(arr[*].k)", "join(',', arr[*].k)", "sort_by(arr, &k) | length(@)", "arr[?k > `5`] | length(@)"}
)

func bigErrCount() int { return len(bigErrN) * 8 * 4 * len(bigErrKinds) * len(bigErrFns) }

func streamBigErr(seed uint64, idx int) caseT {
	k := idx
	n := bigErrN[k%len(bigErrN)]
	k /= len(bigErrN)
	pos := []int{0, 1, n / 2, 12, 20, 31 % n, 32 % n, n - 1}[k%8]
	k /= 8
	order := k % 4
	k /= 4
	kind := bigErrKinds[k%len(bigErrKinds)]
	k /= len(bigErrKinds)
	fn := bigErrFns[k%len(bigErrFns)]
	arr := make([]interface{}, n)
	for i := range arr {
		var v int
		switch order {
		case 0:
			v = i
		case 1:
			v = n - i
		case 2:
			v = 7
		default:
			v = (i * 7919) % 101
		}
		var key interface{} = float64(v)
		if kind == "num-among-str" {
			key = fmt.Sprintf("%03d", v)
		}
		if i == pos {
			switch kind {
			case "str-among-num":
				key = fmt.Sprintf("%03d", v)
			case "num-among-str":
				key = float64(v)
			case "null":
				key = nil
			case "bool":
				key = true
			case "array":
				key = []interface{}{float64(v)}
			}
		}
		arr[i] = map[string]interface{}{"k": key, "i": float64(i)}
	}
	return caseT{lines: []string{"S " + hexField(fn) + " " + canonOf(map[string]interface{}{"arr": arr})}}
}

func init() { streamTable["bigerr"] = streamBigErr }
