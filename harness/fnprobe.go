package main

// "harness fnprobe": the built-in function table of a fresh interpreter, read at run time through the
// hook VerifFunctionTable (reflection, by shape), printed as the entries of `Generated.functionTable`.
// /verif/check uses it when tools/extract cannot read how functions.go builds the table (a rewrite into
// registration calls, a generated table, …).  Unknown handler or type names are refused, never guessed.

import (
	"fmt"
	"os"
	"strings"

	jmespath "github.com/jmespath/go-jmespath"
)

var probeTypeNames = map[string]string{"number": "number", "string": "string", "array": "array", "object": "object",
	"array[number]": "arrayNumber", "array[string]": "arrayString", "expref": "expref", "any": "any"}

var probeHandlerNames = map[string]string{"jpfLength": "length", "jpfStartsWith": "startsWith", "jpfAbs": "abs", "jpfAvg": "avg",
	"jpfCeil": "ceil", "jpfContains": "contains", "jpfEndsWith": "endsWith", "jpfFloor": "floor", "jpfMap": "map",
	"jpfMax": "max", "jpfMerge": "merge", "jpfMaxBy": "maxBy", "jpfSum": "sum", "jpfMin": "min", "jpfMinBy": "minBy",
	"jpfType": "type", "jpfKeys": "keys", "jpfValues": "values", "jpfSort": "sort", "jpfSortBy": "sortBy", "jpfJoin": "join",
	"jpfReverse": "reverse", "jpfToArray": "toArray", "jpfToString": "toString", "jpfToNumber": "toNumber", "jpfNotNull": "notNull"}

func fnProbeMain() int {
	text, err := jmespath.VerifFunctionTable()
	if err != nil {
		fmt.Fprintln(os.Stderr, "fnprobe: cannot read the function table:", err)
		return 3
	}
	var out []string
	for _, l := range strings.Split(text, "\n") {
		f := strings.Split(l, "|")
		if len(f) != 4 {
			fmt.Fprintln(os.Stderr, "fnprobe: unexpected line", l)
			return 3
		}
		h, ok := probeHandlerNames[f[1]]
		if !ok {
			fmt.Fprintf(os.Stderr, "fnprobe: cannot understand the handler of %q: %s is not one of the known handlers\n", f[0], f[1])
			return 3
		}
		var args []string
		takesRef := false
		if f[3] != "" {
			for _, p := range strings.Split(f[3], ";") {
				variadic := strings.HasSuffix(p, "+")
				p = strings.TrimSuffix(p, "+")
				var ts []string
				for _, t := range strings.Split(p, ",") {
					n, ok := probeTypeNames[t]
					if !ok {
						fmt.Fprintf(os.Stderr, "fnprobe: cannot understand parameter type %q of %q\n", t, f[0])
						return 3
					}
					if n == "expref" {
						takesRef = true
					}
					ts = append(ts, n)
				}
				args = append(args, fmt.Sprintf("{ types := [%s], variadic := %v }", strings.Join(ts, ", "), variadic))
			}
		}
		ref := f[2]
		if ref == "?" {
			// no flag field: the code derives it from the signature, so does the probe
			ref = fmt.Sprint(takesRef)
		}
		out = append(out, fmt.Sprintf("  { key := %q, args := [%s], handler := Handler.%s, hasExpRef := %s }", f[0], strings.Join(args, ", "), h, ref))
	}
	fmt.Println(strings.Join(out, ",\n"))
	return 0
}
