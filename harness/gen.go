package main

// Generators.  Every random choice derives from one splitmix64 state seeded
// by (VERIF_SEED, stream, case index), so any case replays exactly.
// Expressions are generated as token lists, type-directed against the
// document: the implementation itself is used as the typing oracle for
// prefixes (under recover), which only steers the choice of the next form and
// never enters a verdict.

import (
	"encoding/json"
	"math"
	"regexp"
	"strconv"
	"strings"

	jmespath "github.com/jmespath/go-jmespath"
)

type rng struct{ s uint64 }

func (r *rng) next() uint64 {
	r.s += 0x9e3779b97f4a7c15
	z := r.s
	z = (z ^ (z >> 30)) * 0xbf58476d1ce4e5b9
	z = (z ^ (z >> 27)) * 0x94d049bb133111eb
	return z ^ (z >> 31)
}
func (r *rng) intn(n int) int {
	if n <= 0 {
		return 0
	}
	return int(r.next() % uint64(n))
}
func (r *rng) chance(pct int) bool     { return r.intn(100) < pct }
func (r *rng) pick(xs []string) string { return xs[r.intn(len(xs))] }

func mix(seed uint64, stream string, idx int) *rng {
	h := seed*0x9e3779b97f4a7c15 + 0x1234567
	for _, c := range []byte(stream) {
		h = (h ^ uint64(c)) * 0x100000001b3
	}
	h ^= uint64(idx) * 0xd6e8feb86659fd93
	r := &rng{s: h}
	r.next()
	return r
}

var keyPool = []string{"a", "b", "c", "foo", "bar", "baz", "k", "name", "id", "n", "x", "tags", "items",
	"", "x y", "é", "世", "a\"b", "A", "_u", "a1", "key-1", "`t`", "'q'", "back\\slash", "1"}
var simpleKeys = []string{"a", "b", "c", "foo", "bar", "k", "name", "id", "n", "x"}
var strPool = []string{"", "a", "ab", "abc", "b", "ba", "hello", "héllo", "世界", "😀x", "a b", "1", "-1.5", "1e3",
	"x'y", "x\"y", "back\\slash", "tick`", "<&>", " ", "\x7f", "A", "Z", "zz", "0", " 1", "1 ", "true", "null",
	"é", "é", "aa", "aaa", "x", "y", "z", "abcabc", "bc", "\\", "a\\'b", "\t", "\n", "100%", "%d%s%v", "%"}
var numPool = []float64{0, 1, -1, 2, 3, 4, 5, 10, 0.5, -0.5, 1.5, 2.5, 100, -7, 1000, 0.25, 3.75, 1e21, 1e-7,
	123456789, 9007199254740992, -2.5, 7, 42, 0.1, 3.14, 1e6, -100, 1e-3, 6, 8, 9}

var unquotedRe = regexp.MustCompile(`^[A-Za-z_][A-Za-z0-9_]*$`)

func jsonText(v interface{}) string {
	b, err := json.Marshal(v)
	if err != nil {
		return "null"
	}
	return string(b)
}

// identTok spells a field name: unquoted when possible (usually), else a
// quoted identifier with JSON escaping.
func (g *gen) identTok(name string) string {
	if unquotedRe.MatchString(name) && !g.r.chance(10) {
		return name
	}
	return jsonText(name)
}

// literalTok spells a JSON literal `...`.
func literalTok(v interface{}) string {
	return "`" + strings.Replace(jsonText(v), "`", "\\`", -1) + "`"
}

// rawOK: the raw-string syntax can spell s.
func rawOK(s string) bool {
	// only a TRAILING backslash cannot be written (it would escape the closing quote); a backslash in front of a
	// quote can: `\'` is spelled `\\'`, which the lexer reads as a kept backslash followed by an escaped quote
	return !strings.HasSuffix(s, "\\")
}
func rawTok(s string) string { return "'" + strings.Replace(s, "'", "\\'", -1) + "'" }

type gen struct {
	r   *rng
	doc interface{}
	// single: every object in the document and in generated literals has at
	// most one member, so object-iteration order cannot be observed and
	// iteration sources (.*, keys, values) may appear anywhere.  Otherwise
	// they are only generated inside order-insensitive units.
	single                bool
	budget                int
	noProj, noFn, noLogic bool // restrict to a fragment
	paths                 bool // prefer document paths over literals as function arguments
	extreme               bool // draw integers from the int64 extremes more often (typed documents)
}

func (g *gen) num() float64 {
	if g.r.chance(85) {
		return numPool[g.r.intn(len(numPool))]
	}
	return float64(g.r.intn(2001)-1000) / float64([]int{1, 2, 4, 8}[g.r.intn(4)])
}
func (g *gen) str() string {
	if g.r.chance(85) {
		return g.r.pick(strPool)
	}
	n := g.r.intn(6)
	alphabet := []string{"a", "b", "c", "é", "世", "😀", " ", "\"", "'", "\\", "`", "1", "<", " "}
	s := ""
	for i := 0; i < n; i++ {
		s += g.r.pick(alphabet)
	}
	return s
}

// value builds a random JSON document.
func (g *gen) value(depth int) interface{} {
	k := g.r.intn(100)
	if depth <= 0 {
		k = k % 60
	}
	switch {
	case k < 8:
		return nil
	case k < 16:
		return g.r.chance(50)
	case k < 38:
		return g.num()
	case k < 60:
		return g.str()
	case k < 80:
		return g.array(depth)
	default:
		return g.object(depth)
	}
}

func (g *gen) array(depth int) []interface{} {
	n := g.r.intn(5)
	if g.r.chance(5) {
		n = 13 + g.r.intn(12)
	}
	out := make([]interface{}, 0, n)
	mode := g.r.intn(6)
	var keys []string
	nk := 1 + g.r.intn(3)
	if g.single {
		nk = 1
	}
	for i := 0; i < nk; i++ {
		keys = append(keys, g.r.pick(simpleKeys))
	}
	for i := 0; i < n; i++ {
		switch mode {
		case 0:
			out = append(out, g.num())
		case 1:
			out = append(out, g.str())
		case 2, 3: // array of similar objects
			m := map[string]interface{}{}
			for _, k := range keys {
				if g.r.chance(85) {
					switch g.r.intn(4) {
					case 0, 1:
						m[k] = float64(g.r.intn(4))
					case 2:
						m[k] = g.r.pick([]string{"a", "b", "c", "", "é"})
					default:
						m[k] = g.value(depth - 2)
					}
				}
			}
			out = append(out, m)
		case 4:
			out = append(out, g.array(depth-1))
		default:
			out = append(out, g.value(depth-1))
		}
	}
	return out
}

func (g *gen) object(depth int) map[string]interface{} {
	n := g.r.intn(4)
	if g.single {
		n = g.r.intn(2)
	}
	out := map[string]interface{}{}
	for i := 0; i < n; i++ {
		var k string
		if g.r.chance(80) {
			k = g.r.pick(simpleKeys)
		} else {
			k = g.r.pick(keyPool)
		}
		out[k] = g.value(depth - 1)
	}
	return out
}

// ---- expression generation ------------------------------------------------

type toks []string

func (t toks) text() string { return strings.Join(t, " ") }

func evalSafe(expr string, cur interface{}) (res interface{}, ok bool) {
	defer func() {
		if r := recover(); r != nil {
			res, ok = nil, false
		}
	}()
	r, err := jmespath.Search(expr, cur)
	if err != nil {
		return nil, false
	}
	return r, true
}

func paren(t toks) toks { return append(append(toks{"("}, t...), ")") }

func sortedKeys(m map[string]interface{}) []string {
	ks := make([]string, 0, len(m))
	for k := range m {
		ks = append(ks, k)
	}
	// insertion sort (tiny)
	for i := 1; i < len(ks); i++ {
		for j := i; j > 0 && ks[j] < ks[j-1]; j-- {
			ks[j], ks[j-1] = ks[j-1], ks[j]
		}
	}
	return ks
}

func (g *gen) someKey(cur interface{}) string {
	if m, ok := cur.(map[string]interface{}); ok && len(m) > 0 && g.r.chance(85) {
		ks := sortedKeys(m)
		return ks[g.r.intn(len(ks))]
	}
	if g.r.chance(70) {
		return g.r.pick(simpleKeys)
	}
	return g.r.pick(keyPool)
}

func (g *gen) intTok(n int) string {
	lo, hi := -n-2, n+2
	v := lo + g.r.intn(hi-lo+1)
	if g.r.chance(3) || (g.extreme && g.r.chance(12)) {
		v = []int{math.MaxInt64, math.MinInt64, math.MaxInt64 - 1, math.MinInt64 + 1, 1 << 62, -(1 << 62), 1 << 32, -(1 << 31),
			math.MaxInt64 - 3, math.MinInt64 + 4}[g.r.intn(10)]
	}
	if g.r.chance(4) {
		// leading zeros are decimal, not octal
		if v < 0 {
			return "-0" + strconv.Itoa(-v)
		}
		return g.r.pick([]string{"0", "00"}) + strconv.Itoa(v)
	}
	return strconv.Itoa(v)
}

func (g *gen) sliceToks(n int) toks {
	part := func(allowZero bool) string {
		if g.r.chance(35) {
			return ""
		}
		for {
			s := g.intTok(n)
			if s != "0" || allowZero {
				return s
			}
		}
	}
	t := toks{"["}
	if a := part(true); a != "" {
		t = append(t, a)
	}
	t = append(t, ":")
	if b := part(true); b != "" {
		t = append(t, b)
	}
	if g.r.chance(60) {
		t = append(t, ":")
		if c := part(g.r.chance(4)); c != "" {
			t = append(t, c)
		}
	}
	return append(t, "]")
}

// atom: an expression that needs no left-hand side.
func (g *gen) atom(cur interface{}) toks {
	switch k := g.r.intn(100); {
	case k < 40:
		return toks{g.identTok(g.someKey(cur))}
	case k < 50:
		return toks{"@"}
	case k < 65:
		return toks{literalTok(g.value(1))}
	case k < 75:
		s := g.str()
		if rawOK(s) {
			return toks{rawTok(s)}
		}
		return toks{literalTok(s)}
	case k < 85:
		if a, ok := cur.([]interface{}); ok {
			return toks{"[", g.intTok(len(a)), "]"}
		}
		return toks{literalTok(g.num())}
	case k < 90:
		return toks{"[", g.intTok(2), "]"}
	default:
		return toks{literalTok(g.num())}
	}
}

func sample(r *rng, xs []interface{}) interface{} {
	if len(xs) == 0 {
		return nil
	}
	return xs[r.intn(len(xs))]
}

// rhs: a projection right-hand side generated against an element sample.
func (g *gen) rhs(elem interface{}, depth int) toks {
	var t toks
	cur := elem
	for i := 0; i < 3 && depth > 0; i++ {
		if g.r.chance(35) {
			break
		}
		s := g.suffix(cur, depth-1, true)
		if len(s) == 0 {
			break
		}
		t = append(t, s...)
		if len(s) > 1 && s[0] == "." && (s[1] == "[" || s[1] == "{") {
			// a multi-select ends a dot right-hand side: a following bracket
			// would apply to the whole projection, not to each element
			break
		}
		v, ok := evalSafe("@"+strings.TrimPrefix(s.text(), "@"), cur)
		if !ok {
			break
		}
		cur = v
		depth--
	}
	return t
}

// suffix: one postfix form applicable to a value of cur's type (sometimes a
// deliberately ill-typed one).  inRHS restricts to forms allowed on a
// projection's right-hand side.
func (g *gen) suffix(cur interface{}, depth int, inRHS bool) toks {
	wrong := g.r.chance(8)
	kind := 0 // 0 scalar/null, 1 object, 2 array
	switch cur.(type) {
	case map[string]interface{}:
		kind = 1
	case []interface{}:
		kind = 2
	}
	if wrong {
		kind = g.r.intn(3)
	}
	switch kind {
	case 1:
		m, _ := cur.(map[string]interface{})
		switch k := g.r.intn(100); {
		case k < 60:
			return toks{".", g.identTok(g.someKey(cur))}
		case k < 72:
			// object wildcard: only where iteration order cannot be observed
			if !g.single || g.noProj {
				return toks{".", g.identTok(g.someKey(cur))}
			}
			var el interface{}
			for _, key := range sortedKeys(m) {
				el = m[key]
				break
			}
			return append(toks{".", "*"}, g.rhs(el, depth)...)
		case k < 86:
			t := toks{".", "["}
			for i, n := 0, 1+g.r.intn(3); i < n; i++ {
				if i > 0 {
					t = append(t, ",")
				}
				t = append(t, g.expr(cur, depth-1)...)
			}
			return append(t, "]")
		default:
			t := toks{".", "{"}
			for i, n := 0, g.hashSize(); i < n; i++ {
				if i > 0 {
					t = append(t, ",")
				}
				t = append(t, g.identTok(g.r.pick(keyPool)), ":")
				t = append(t, g.expr(cur, depth-1)...)
			}
			return append(t, "}")
		}
	case 2:
		a, _ := cur.([]interface{})
		if g.noProj {
			return toks{"[", g.intTok(len(a)), "]"}
		}
		switch k := g.r.intn(100); {
		case k < 25:
			return toks{"[", g.intTok(len(a)), "]"}
		case k < 40:
			s := g.sliceToks(len(a))
			return append(s, g.rhs(sample(g.r, a), depth)...)
		case k < 58:
			return append(toks{"[", "*", "]"}, g.rhs(sample(g.r, a), depth)...)
		case k < 72:
			var el interface{}
			for _, e := range a {
				if ea, ok := e.([]interface{}); ok && len(ea) > 0 {
					el = ea[0]
					break
				}
				el = e
			}
			return append(toks{"[]"}, g.rhs(el, depth)...)
		default:
			el := sample(g.r, a)
			t := append(toks{"[?"}, g.cond(el, depth-1)...)
			t = append(t, "]")
			return append(t, g.rhs(el, depth)...)
		}
	default:
		if inRHS {
			if g.r.chance(50) {
				return toks{".", g.identTok(g.someKey(cur))}
			}
			return toks{"[", g.intTok(1), "]"}
		}
		return nil
	}
}

// cond: a filter condition against an element.
func (g *gen) cond(el interface{}, depth int) toks {
	ops := []string{"==", "!=", "<", "<=", ">", ">="}
	switch k := g.r.intn(100); {
	case k < 45:
		l := g.expr(el, depth-1)
		var rv interface{}
		if v, ok := evalSafe(l.text(), el); ok && g.r.chance(60) {
			rv = v
		} else {
			rv = g.value(0)
		}
		return append(append(tight(l), g.r.pick(ops)), literalTok(rv))
	case k < 60:
		return g.expr(el, depth-1)
	case k < 70:
		return append(toks{"!"}, tight(g.expr(el, depth-1))...)
	case k < 85:
		return append(append(tight(g.cond(el, depth-1)), g.r.pick([]string{"&&", "||"})), tight(g.cond(el, depth-1))...)
	default:
		return toks{"@"}
	}
}

func isLoose(t toks) bool {
	depth := 0
	for i, x := range t {
		switch x {
		case "(", "[", "{", "[?":
			depth++
		case ")", "]", "}":
			depth--
		case "||", "&&", "|", "==", "!=", "<", "<=", ">", ">=":
			if depth == 0 {
				return true
			}
		case "!":
			if depth == 0 && i == 0 {
				return true
			}
		}
		if strings.HasSuffix(x, "(") && x != "(" && !strings.HasPrefix(x, "`") && !strings.HasPrefix(x, "'") && !strings.HasPrefix(x, "\"") {
			depth++
		}
	}
	return false
}

// tight parenthesises a loose expression (operands of tighter operators).
func tight(t toks) toks {
	if isLoose(t) {
		return paren(t)
	}
	return t
}

type fnSig struct {
	name   string
	params []string // number string array object anum astr any expref
	varia  bool
}

var fnSigs = []fnSig{
	{"abs", []string{"number"}, false}, {"avg", []string{"anum"}, false}, {"ceil", []string{"number"}, false},
	{"contains", []string{"arrstr", "any"}, false}, {"ends_with", []string{"string", "string"}, false},
	{"floor", []string{"number"}, false}, {"join", []string{"string", "astr"}, false}, {"keys", []string{"object"}, false},
	{"length", []string{"sao"}, false}, {"map", []string{"expref", "array"}, false}, {"max", []string{"anumstr"}, false},
	{"max_by", []string{"array", "expref"}, false}, {"merge", []string{"object"}, true}, {"min", []string{"anumstr"}, false},
	{"min_by", []string{"array", "expref"}, false}, {"not_null", []string{"any"}, true}, {"reverse", []string{"arrstr"}, false},
	{"sort", []string{"anumstr"}, false}, {"sort_by", []string{"array", "expref"}, false},
	{"starts_with", []string{"string", "string"}, false}, {"sum", []string{"anum"}, false}, {"to_array", []string{"any"}, false},
	{"to_number", []string{"any"}, false}, {"to_string", []string{"any"}, false}, {"type", []string{"any"}, false},
	{"values", []string{"object"}, false},
}

func typeMatches(v interface{}, want string) bool {
	switch want {
	case "any":
		return true
	case "number":
		_, ok := v.(float64)
		return ok
	case "string":
		_, ok := v.(string)
		return ok
	case "array":
		_, ok := v.([]interface{})
		return ok
	case "object":
		_, ok := v.(map[string]interface{})
		return ok
	case "anum", "astr":
		a, ok := v.([]interface{})
		if !ok {
			return false
		}
		for _, e := range a {
			if want == "anum" {
				if _, ok := e.(float64); !ok {
					return false
				}
			} else if _, ok := e.(string); !ok {
				return false
			}
		}
		return true
	case "anumstr":
		return typeMatches(v, "anum") || typeMatches(v, "astr")
	case "arrstr":
		return typeMatches(v, "array") || typeMatches(v, "string")
	case "sao":
		return typeMatches(v, "array") || typeMatches(v, "string") || typeMatches(v, "object")
	}
	return false
}

func (g *gen) literalOfType(want string) interface{} {
	switch want {
	case "number":
		return g.num()
	case "string":
		return g.str()
	case "array":
		return g.array(1)
	case "object":
		return g.object(1)
	case "anum":
		n := g.r.intn(5)
		out := []interface{}{}
		for i := 0; i < n; i++ {
			out = append(out, g.num())
		}
		return out
	case "astr":
		n := g.r.intn(5)
		out := []interface{}{}
		for i := 0; i < n; i++ {
			out = append(out, g.str())
		}
		return out
	case "anumstr":
		return g.literalOfType([]string{"anum", "astr"}[g.r.intn(2)])
	case "arrstr":
		return g.literalOfType([]string{"array", "string"}[g.r.intn(2)])
	case "sao":
		return g.literalOfType([]string{"array", "string", "object"}[g.r.intn(3)])
	}
	return g.value(1)
}

// typed: an expression (relative to cur) whose value has the wanted type,
// with the value when known.
func (g *gen) typed(cur interface{}, want string, depth int) (toks, interface{}, bool) {
	if g.r.chance(7) { // deliberately arbitrary (possibly ill-typed)
		t := g.expr(cur, depth-1)
		v, ok := evalSafe(t.text(), cur)
		return t, v, ok
	}
	tries := 3
	if g.paths {
		tries = 8
	}
	for try := 0; try < tries && depth > 0; try++ {
		var t toks
		if g.paths {
			t = g.path(cur, 1+g.r.intn(3))
		} else {
			t = g.expr(cur, depth-1)
		}
		if v, ok := evalSafe(t.text(), cur); ok && typeMatches(v, want) {
			return t, v, true
		}
	}
	v := g.literalOfType(want)
	return toks{literalTok(v)}, v, true
}

func (g *gen) call(cur interface{}, depth int) toks {
	sig := fnSigs[g.r.intn(len(fnSigs))]
	if !g.single && (sig.name == "keys" || sig.name == "values") {
		return g.guardedUnit(cur, depth)
	}
	if g.single && sig.name == "merge" {
		sig = fnSigs[0]
	}
	name := sig.name
	if g.r.chance(2) {
		name = g.r.pick([]string{"nosuch", "lenght", "Abs", "to_strin"})
	}
	n := len(sig.params)
	if sig.varia {
		n = 1 + g.r.intn(3)
	}
	if g.r.chance(4) {
		n = g.r.intn(4)
	}
	t := toks{name + "("}
	var arrVal interface{}
	args := make([]toks, n)
	// arrays first so that expression references can be generated against an element
	order := []int{}
	for i := 0; i < n; i++ {
		order = append(order, i)
	}
	for pass := 0; pass < 2; pass++ {
		for _, i := range order {
			want := "any"
			if i < len(sig.params) {
				want = sig.params[i]
			} else if sig.varia {
				want = sig.params[len(sig.params)-1]
			}
			if (want == "expref") != (pass == 1) {
				continue
			}
			if want == "expref" {
				var el interface{}
				if a, ok := arrVal.([]interface{}); ok {
					el = sample(g.r, a)
				}
				if g.r.chance(4) {
					args[i] = g.expr(cur, depth-1) // a value where a reference is required
				} else {
					args[i] = append(toks{"&"}, g.expr(el, depth-1)...)
				}
				continue
			}
			if g.r.chance(2) {
				args[i] = append(toks{"&"}, g.expr(cur, depth-1)...) // a reference where a value is required
				continue
			}
			a, v, ok := g.typed(cur, want, depth)
			args[i] = a
			if ok && (want == "array") {
				arrVal = v
			}
		}
	}
	for i, a := range args {
		if i > 0 {
			t = append(t, ",")
		}
		t = append(t, a...)
	}
	return append(t, ")")
}

// expr: an expression to be evaluated against cur.
func (g *gen) expr(cur interface{}, depth int) toks {
	g.budget--
	if depth <= 0 || g.budget <= 0 {
		return g.atom(cur)
	}
	k := g.r.intn(100)
	if g.noFn && k >= 50 && k < 62 {
		k = 20
	}
	if g.noLogic && k >= 70 && k < 84 {
		k = 30
	}
	switch {
	case k < 12:
		return g.atom(cur)
	case k < 50: // chain: left followed by a suffix chosen for its value
		left := g.expr(cur, depth-1)
		v, ok := evalSafe(left.text(), cur)
		if !ok {
			v = nil
		}
		s := g.suffix(v, depth-1, false)
		if len(s) == 0 {
			if g.r.chance(50) {
				return append(append(tightPipe(left), "|"), g.expr(v, depth-1)...)
			}
			return left
		}
		if isLoose(left) && !g.r.chance(8) {
			left = paren(left)
		}
		return append(left, s...)
	case k < 62:
		return g.call(cur, depth)
	case k < 70:
		left := g.expr(cur, depth-1)
		v, _ := evalSafe(left.text(), cur)
		return append(append(tightPipe(left), "|"), g.expr(v, depth-1)...)
	case k < 80:
		op := g.r.pick([]string{"||", "&&", "==", "!=", "<", "<=", ">", ">="})
		l, r := g.expr(cur, depth-1), g.expr(cur, depth-1)
		if !g.r.chance(15) {
			l, r = tight(l), tight(r)
		}
		return append(append(l, op), r...)
	case k < 84:
		e := g.expr(cur, depth-1)
		if !g.r.chance(15) {
			e = tight(e)
		}
		return append(toks{"!"}, e...)
	case k < 88:
		return paren(g.expr(cur, depth-1))
	case k < 94:
		t := toks{"["}
		for i, n := 0, 1+g.r.intn(3); i < n; i++ {
			if i > 0 {
				t = append(t, ",")
			}
			t = append(t, g.expr(cur, depth-1)...)
		}
		return append(t, "]")
	default:
		t := toks{"{"}
		for i, n := 0, g.hashSize(); i < n; i++ {
			if i > 0 {
				t = append(t, ",")
			}
			t = append(t, g.identTok(g.r.pick(keyPool)), ":")
			t = append(t, g.expr(cur, depth-1)...)
		}
		return append(t, "}")
	}
}

func tightPipe(t toks) toks { return t }

func (g *gen) hashSize() int {
	if g.single {
		return 1
	}
	return 1 + g.r.intn(3)
}

// guardedUnit: an object-iteration source wrapped at once in a consumer that
// does not depend on the order (for documents with multi-member objects).
func (g *gen) guardedUnit(cur interface{}, depth int) toks {
	obj, _, _ := g.typed(cur, "object", depth)
	obj = tight(obj)
	switch g.r.intn(7) {
	case 0:
		return append(append(toks{"sort(", "keys("}, obj...), ")", ")")
	case 1:
		return append(append(toks{"length(", "keys("}, obj...), ")", ")")
	case 2:
		return append(append(toks{"length(", "values("}, obj...), ")", ")")
	case 3:
		return append(append(toks{"length("}, append(obj, ".", "*")...), ")")
	case 4:
		// in parentheses: embedded as an operand ("X.* | length(@) < [0]") the pipe would otherwise
		// take the whole right context as its second stage and expose the list's order
		return paren(append(append(obj, ".", "*", "|", "length(", "@", ")")))
	case 5:
		return append(append(toks{"contains(", "keys("}, obj...), ")", ",", rawTok(g.r.pick(simpleKeys)), ")")
	default:
		return append(append(toks{"length(", "to_array("}, append(obj, ".", "*", ".", g.identTok(g.someKey(nil)))...), ")", ")")
	}
}

// ---- rendering ------------------------------------------------------------

func wordLike(c byte) bool {
	return c == '_' || c == '-' || (c >= '0' && c <= '9') || (c >= 'a' && c <= 'z') || (c >= 'A' && c <= 'Z')
}

// mustSeparate: two adjacent lexemes that would fuse without white space.
func mustSeparate(a, b string) bool {
	if a == "" || b == "" {
		return false
	}
	x, y := a[len(a)-1], b[0]
	if wordLike(x) && wordLike(y) {
		return true
	}
	if x == '[' && (y == '?' || y == ']') {
		return true
	}
	if (x == '|' && y == '|') || (x == '&' && y == '&') {
		return true
	}
	if (x == '<' || x == '>' || x == '!' || x == '=') && y == '=' {
		return true
	}
	return false
}

// render joins lexemes; mode 0 = minimal white space, 1 = single spaces,
// 2 = random white space from the four characters the language allows.
func render(t toks, mode int, r *rng) string {
	var sb strings.Builder
	ws := []string{" ", "\t", "\n", "\r", "  ", " \n "}
	for i, x := range t {
		if i > 0 {
			a := t[i-1]
			// a function name carries its '(' and must stay attached
			switch mode {
			case 0:
				if mustSeparate(a, x) {
					sb.WriteString(" ")
				}
			case 1:
				sb.WriteString(" ")
			default:
				if mustSeparate(a, x) || r.chance(50) {
					sb.WriteString(ws[r.intn(len(ws))])
				}
			}
		} else if mode == 2 && r.chance(20) {
			sb.WriteString(ws[r.intn(len(ws))])
		}
		sb.WriteString(x)
	}
	if mode == 2 && r.chance(20) {
		sb.WriteString(ws[r.intn(len(ws))])
	}
	return sb.String()
}

// path: a plain navigation path into cur (fields and indexes that exist).
func (g *gen) path(cur interface{}, n int) toks {
	t := toks{}
	for i := 0; i < n; i++ {
		switch v := cur.(type) {
		case map[string]interface{}:
			if len(v) == 0 {
				break
			}
			ks := sortedKeys(v)
			k := ks[g.r.intn(len(ks))]
			if len(t) > 0 {
				t = append(t, ".")
			}
			t = append(t, g.identTok(k))
			cur = v[k]
			continue
		case []interface{}:
			if len(v) == 0 {
				break
			}
			j := g.r.intn(len(v))
			if len(t) == 0 {
				t = append(t, "@")
			}
			t = append(t, "[", strconv.Itoa(j), "]")
			cur = v[j]
			continue
		}
		break
	}
	if len(t) == 0 {
		return toks{"@"}
	}
	return t
}
