package main

// History poisoning: before every generated case the worker makes one hostile call to the
// library (a compile that fails half-way through a token, a search that fails inside a
// function, an expression that leaves scratch state behind) and ignores its outcome.  The
// Lean model is a pure function of the case, so any state the library carries from one call
// to the next (a pooled lexer, a cache, a shared buffer) shows up as a disagreement in
// whatever stream is running.  On a library that is history-independent this changes nothing.

import (
	"encoding/json"

	jmespath "github.com/jmespath/go-jmespath"
)

type poisonCall struct {
	expr string
	doc  string // JSON text; "" = null
}

var poisonCalls = []poisonCall{
	{"'a\\'b", ""}, {"'abc", ""}, {"\"ab\\\"c", ""}, {"`{\"a\": [1, ", ""}, {"`\"x\\`y", ""}, {"\"\\ud800", ""},
	{"a.", ""}, {"a[", ""}, {"a[?b", ""}, {"{a: b, ", ""}, {"f(a, ", ""}, {"f(&", ""}, {"a || ", ""}, {"[1:2:3:4]", ""},
	{"a\xffb", ""}, {"\xc3", ""}, {"a.b.c.d.e.f.g[0][1][2].h | i", ""}, {"'q\\'r' | [@, 'p\\\\']", ""},
	{"abs('x')", ""}, {"sort_by(@, &a)", `[{"a":1},{"a":"x"},{"a":2}]`}, {"max_by(@, &a)", `[{"a":[1]},{"a":2}]`},
	{"nosuchfunction(@)", ""}, {"[::0]", `[1,2,3]`}, {"a[1:9:2] | [::-1]", `{"a":[1,2,3,4,5,6,7]}`},
	{"map(&abs(@), @)", `["x",1]`}, {"merge(a, b, `{\"z\":0}`)", `{"a":{"x":1},"b":{"y":2}}`},
	{"[to_array(a), to_array(b), not_null(c, a)]", `{"a":1,"b":"two"}`}, {"sort_by(@, &a)[*].a", `[{"a":3},{"a":1},{"a":2}]`},
	{"length(@)", `12`}, {"join(',', @)", `["", "a", ""]`}, {"reverse(@)", `"über"`}, {"a.*.b[]", `{"a":{"p":{"b":[1,[2]]},"q":{"b":[3]}}}`},
	{"values(@)", `{}`}, {"to_number('-inf')", ""}, {"contains(@, `{\"a\":1}`)", `[{"a":1}]`}, {"a[-3::-1]", `{"a":[0,1,2]}`},
	{"@ | 'lit' | [@, `null`]", ""}, {"foo[?a == `1` && b].c", `{"foo":[{"a":1,"b":true,"c":"x"}]}`},
}

func poison(n int) {
	defer func() { recover() }()
	if n < 0 {
		n = -n
	}
	p := poisonCalls[n%len(poisonCalls)]
	var doc interface{}
	if p.doc != "" {
		if err := json.Unmarshal([]byte(p.doc), &doc); err != nil {
			doc = nil
		}
	}
	switch n % 3 {
	case 0:
		jmespath.Search(p.expr, doc)
	case 1:
		if jp, err := jmespath.Compile(p.expr); err == nil && jp != nil {
			jp.Search(doc)
			jp.Search(doc)
		}
	default:
		parser := jmespath.NewParser()
		parser.Parse(p.expr)
		parser.Parse("'z' | a")
	}
}
