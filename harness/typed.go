package main

// C18: documents made of Go structs, pointers and typed slices (built with
// reflect.StructOf) against their generic JSON form.  The case is regenerated
// inside the worker from (seed, index); the oracle is on the implementation:
//   normalise(Search(e, typedDoc)) == Search(capFields(e), genericDoc)
// for navigational expressions, and "no panic" for every built-in function
// applied to typed values.

import (
	"encoding/json"
	"reflect"
	"strconv"
	"strings"
	"unicode"
	"unicode/utf8"

	jmespath "github.com/jmespath/go-jmespath"
)

var (
	tLeaf, tMid, tRoot reflect.Type
)

func init() {
	sf := func(name string, t reflect.Type) reflect.StructField { return reflect.StructField{Name: name, Type: t} }
	str, num, boolT := reflect.TypeOf(""), reflect.TypeOf(float64(0)), reflect.TypeOf(true)
	tLeaf = reflect.StructOf([]reflect.StructField{sf("Name", str), sf("Val", num), sf("Ok", boolT)})
	tMid = reflect.StructOf([]reflect.StructField{sf("Id", num), sf("Label", str), sf("Leaf", reflect.PtrTo(tLeaf)), sf("Tags", reflect.SliceOf(str)), sf("Inner", tLeaf), sf("Leafs", reflect.SliceOf(tLeaf))})
	tRoot = reflect.StructOf([]reflect.StructField{
		sf("Title", str), sf("Count", num), sf("Kids", reflect.SliceOf(tMid)), sf("PKids", reflect.SliceOf(reflect.PtrTo(tMid))),
		sf("Leaf", reflect.PtrTo(tLeaf)), sf("NilLeaf", reflect.PtrTo(tLeaf)), sf("Nums", reflect.SliceOf(num)),
		sf("Lists", reflect.SliceOf(reflect.SliceOf(num))), sf("Strs", reflect.SliceOf(str)), sf("Inner", tMid),
		sf("Éclairs", num), sf("PLeafs", reflect.SliceOf(reflect.PtrTo(tLeaf))), sf("Empty", reflect.SliceOf(tMid)), sf("Ǆep", str),
	})
	// typedmodel: the Lean typed model (Jmes/Typed.lean: evalT, view) against the
	// implementation on the same typed document and expression.
	streamTable["typedmodel"] = func(seed uint64, idx int) caseT {
		_, doc, _, exprs := typedCase(seed, idx)
		tc := typedCanon(reflect.ValueOf(doc))
		var lines []string
		for k, e := range exprs {
			if e.nav {
				lines = append(lines, "ST "+strconv.FormatUint(seed, 10)+" "+strconv.Itoa(idx)+" "+strconv.Itoa(k)+" "+hexField(e.typed)+" "+tc)
			}
		}
		if len(lines) == 0 {
			lines = []string{"C " + hexField("@")}
		}
		return caseT{lines: lines}
	}
	streamTable["typed"] = func(seed uint64, idx int) caseT {
		_, _, gdoc, exprs := typedCase(seed, idx)
		lines := []string{"TY " + strconv.FormatUint(seed, 10) + " " + strconv.Itoa(idx)}
		for _, e := range exprs {
			if e.nav {
				lines = append(lines, "S "+hexField(e.generic)+" "+canonOf(gdoc))
			}
		}
		return caseT{lines: lines}
	}
}

func fillLeaf(g *gen) reflect.Value {
	v := reflect.New(tLeaf).Elem()
	v.Field(0).SetString(g.r.pick([]string{"a", "b", "", "é", "leaf"}))
	v.Field(1).SetFloat(float64(g.r.intn(5)))
	v.Field(2).SetBool(g.r.chance(50))
	return v
}

func fillMid(g *gen) reflect.Value {
	v := reflect.New(tMid).Elem()
	v.Field(0).SetFloat(float64(g.r.intn(4)))
	v.Field(1).SetString(g.r.pick([]string{"x", "y", "z", "", "世"}))
	if g.r.chance(65) {
		p := reflect.New(tLeaf)
		p.Elem().Set(fillLeaf(g))
		v.Field(2).Set(p)
	}
	n := g.r.intn(4)
	tags := reflect.MakeSlice(reflect.SliceOf(reflect.TypeOf("")), n, n)
	for i := 0; i < n; i++ {
		tags.Index(i).SetString(g.r.pick([]string{"t", "u", "", "é"}))
	}
	v.Field(3).Set(tags)
	v.Field(4).Set(fillLeaf(g))
	n = g.r.intn(4)
	leafs := reflect.MakeSlice(reflect.SliceOf(tLeaf), n, n)
	for i := 0; i < n; i++ {
		leafs.Index(i).Set(fillLeaf(g))
	}
	v.Field(5).Set(leafs)
	return v
}

// typed paths and navigational contexts whose product is walked by the typed streams (no functions other than
// length: the typed model covers navigation, comparators and length)
var typedInner = []string{"@", "Title", "Count", "Kids", "PKids", "Leaf", "NilLeaf", "Nums", "Lists", "Strs", "Inner", "Empty", "PLeafs", "Kids[0]", "PKids[0]", "Kids[0].Leafs", "Kids[0].Tags", "Inner.Leaf",
	"Inner.Tags", "Inner.Inner", "Leaf.Name", "NilLeaf.Name", "Lists[0]", "PLeafs[0]", "Kids[*].Leaf", "Kids[*].Tags", "PKids[*].Leafs", "Nums[1:]", "Kids[?Id > `1`]", "Kids[].Leafs[]", "Missing", "Kids[9]"}
var typedOuter = []string{"%s", "%s[0]", "%s[-1]", "%s[1:]", "%s[::-1]", "%s[*]", "%s[]", "%s[?@]", "%s[*].Name", "%s[*].Label", "%s[?Ok]", "%s[?Name == 'a']", "%s.Name", "%s.Leaf", "%s.Tags", "%s.Leafs[0].Name",
	"%s[*].Tags[0]", "%s[*].Leafs[*].Name", "%s[].Name", "!%s", "%s || Title", "%s && Count", "[%s, Title]", "{a: %s}", "%s | [0]", "%s | @", "%s == `null`", "%s == %s", "length(%s[*])", "length(%s[])", "length(%s[1:])", "%s[*].[Name, Ok]",
	"%s[0][0]", "%s[?@ > `1`]", "%s[-1:].Name", "%s[?Leaf].Label", "%s[?!Leaf].Id", "[%s][0]", "[%s][]"}

type typedExpr struct {
	typed, generic string
	nav            bool
	cmp            bool // compared with the generic document in Go only (not sent to the Lean typed model)
}

// Compiled-in types with EMBEDDED structs (reflect.StructOf cannot build those): fields promoted from an embedded
// struct, by value and through a pointer (nil or not), are part of the JSON form, and the library finds them
// through FieldByName.  Used by every 12th typed case; compared with the generic document in Go only.
type EmbAudit struct {
	Author string
	Rev    float64
	Tags   []string
}
type EmbMeta struct {
	Owner string
	Kind  string
}
type EmbItem struct {
	EmbAudit
	ID   string
	Note string
}
type EmbTiny struct{ Title string }
type EmbColor string
type EmbCelsius float64
type EmbDoc struct {
	EmbMeta
	*EmbAudit
	Title  string
	Items  []EmbItem
	PItem  *EmbItem
	Colors []EmbColor // typed slices whose ELEMENT type is a named string / number type
	Temps  []EmbCelsius
}

func embeddedCase(g *gen) (doc interface{}, generic interface{}, exprs []typedExpr) {
	mkAudit := func() EmbAudit {
		return EmbAudit{Author: g.r.pick([]string{"ada", "bob", ""}), Rev: float64(g.r.intn(5)), Tags: []string{"t", g.r.pick([]string{"u", "v"})}[:g.r.intn(3)]}
	}
	d := EmbDoc{EmbMeta: EmbMeta{Owner: g.r.pick([]string{"me", "you", ""}), Kind: "k"}, Title: g.r.pick([]string{"title", ""})}
	if g.r.chance(70) {
		a := mkAudit()
		d.EmbAudit = &a
	}
	n := g.r.intn(4)
	for i := 0; i < n; i++ {
		d.Items = append(d.Items, EmbItem{EmbAudit: mkAudit(), ID: "i" + strconv.Itoa(i), Note: g.r.pick([]string{"", "n"})})
	}
	if d.Items == nil {
		d.Items = []EmbItem{}
	}
	if g.r.chance(60) {
		d.PItem = &EmbItem{EmbAudit: mkAudit(), ID: "p"}
	}
	if d.EmbAudit == nil {
		// a nil embedded pointer: encoding/json omits its fields, the library answers null for them
		// (FieldByName through a nil embedded pointer panics in reflect: only the non-promoted names are asked)
		for _, e := range []string{"Owner", "Kind", "Title", "Items[*].ID", "Items[*].Author", "Items[?Rev > `1`].Author", "PItem.Author", "PItem.Tags[0]", "Owner || Title",
			"[Owner, Title]", "{o: Owner, n: length(Items)}", "Items[*].Tags[]", "Items[*].[ID, Author, Rev]", "length(Items)"} {
			exprs = append(exprs, typedExpr{typed: e, generic: e, cmp: true})
		}
	} else {
		for _, e := range []string{"Owner", "Kind", "Author", "Rev", "Tags", "Tags[0]", "length(Tags)", "Title", "Items[*].ID", "Items[*].Author", "Items[?Rev > `1`].Author", "PItem.Author", "PItem.Tags[0]",
			"Owner || Title", "Author && Owner", "[Owner, Author, Title]", "{o: Owner, a: Author, n: length(Items)}", "Items[*].Tags[]", "Items[*].[ID, Author, Rev]",
			"[Author, Author, Owner, Owner]", "Items[*].Author | [Author, @]"} {
			exprs = append(exprs, typedExpr{typed: e, generic: e, cmp: true})
		}
	}
	d.Colors = []EmbColor{"red", EmbColor(g.r.pick([]string{"blue", "", "é"}))}[:g.r.intn(3)]
	d.Temps = []EmbCelsius{1.5, EmbCelsius(g.r.intn(5))}[:g.r.intn(3)]
	// built-ins on slices of named element types: whatever they answer, they do not panic
	for _, e := range []string{"join(', ', Colors)", "avg(Temps)", "sum(Temps)", "sort(Colors)", "max(Temps)", "min(Colors)", "reverse(Colors)", "contains(Colors, 'red')", "length(Colors)", "sort_by(Colors, &@)",
		"max_by(Temps, &@)", "map(&@, Colors)", "to_string(Colors)", "Colors[0]", "Temps[?@ > `1`]", "[Colors, Temps][]"} {
		exprs = append(exprs, typedExpr{typed: e, generic: e})
	}
	// naming the embedded struct itself (`EmbMeta.Owner`) finds it in Go (FieldByName) but not in the JSON form, where
	// its fields are promoted and the struct has no key of its own: outside the property (which speaks of the field
	// names of the JSON form); asked for the no-panic half only
	for _, e := range []string{"EmbMeta.Owner", "Items[0].EmbAudit.Author", "EmbMeta", "Items[*].EmbAudit"} {
		exprs = append(exprs, typedExpr{typed: e, generic: e})
	}
	if g.r.chance(50) {
		doc = &d
	} else {
		doc = d
	}
	js, _ := json.Marshal(doc)
	json.Unmarshal(js, &generic)
	return
}

func typedCase(seed uint64, idx int) (g *gen, doc interface{}, generic interface{}, exprs []typedExpr) {
	g = &gen{r: mix(seed, "typed", idx), budget: 40, extreme: true}
	if idx%12 == 5 {
		doc, generic, exprs = embeddedCase(g)
		return
	}
	root := reflect.New(tRoot).Elem()
	root.Field(0).SetString(g.r.pick([]string{"title", "", "héllo"}))
	root.Field(1).SetFloat(float64(g.r.intn(10)))
	n := g.r.intn(5)
	kids := reflect.MakeSlice(reflect.SliceOf(tMid), n, n)
	for i := 0; i < n; i++ {
		kids.Index(i).Set(fillMid(g))
	}
	root.Field(2).Set(kids)
	n = g.r.intn(5)
	pk := reflect.MakeSlice(reflect.SliceOf(reflect.PtrTo(tMid)), n, n)
	for i := 0; i < n; i++ {
		if g.r.chance(75) {
			p := reflect.New(tMid)
			p.Elem().Set(fillMid(g))
			pk.Index(i).Set(p)
		}
	}
	root.Field(3).Set(pk)
	if g.r.chance(70) {
		p := reflect.New(tLeaf)
		p.Elem().Set(fillLeaf(g))
		root.Field(4).Set(p)
	}
	n = g.r.intn(9)
	nums := reflect.MakeSlice(reflect.SliceOf(reflect.TypeOf(float64(0))), n, n)
	for i := 0; i < n; i++ {
		nums.Index(i).SetFloat(float64(g.r.intn(7)) - 2)
	}
	root.Field(6).Set(nums)
	n = g.r.intn(4)
	lists := reflect.MakeSlice(reflect.SliceOf(reflect.SliceOf(reflect.TypeOf(float64(0)))), n, n)
	for i := 0; i < n; i++ {
		m := g.r.intn(3)
		l := reflect.MakeSlice(reflect.SliceOf(reflect.TypeOf(float64(0))), m, m)
		for j := 0; j < m; j++ {
			l.Index(j).SetFloat(float64(g.r.intn(5)))
		}
		lists.Index(i).Set(l)
	}
	aliased := false
	if nums.Len() >= 2 && g.r.chance(30) {
		aliased = true
		// slices that share one backing array (sub-slices of Nums)
		m := 1 + g.r.intn(3)
		lists = reflect.MakeSlice(reflect.SliceOf(reflect.SliceOf(reflect.TypeOf(float64(0)))), m, m)
		for i := 0; i < m; i++ {
			lists.Index(i).Set(nums.Slice(0, g.r.intn(nums.Len())))
		}
	}
	root.Field(7).Set(lists)
	n = g.r.intn(5)
	strs := reflect.MakeSlice(reflect.SliceOf(reflect.TypeOf("")), n, n)
	for i := 0; i < n; i++ {
		strs.Index(i).SetString(g.r.pick([]string{"a", "b", "ab", "", "é世"}))
	}
	root.Field(8).Set(strs)
	root.Field(9).Set(fillMid(g))
	root.Field(10).SetFloat(3)
	n = g.r.intn(4)
	pl := reflect.MakeSlice(reflect.SliceOf(reflect.PtrTo(tLeaf)), n, n)
	for i := 0; i < n; i++ {
		if g.r.chance(60) {
			p := reflect.New(tLeaf)
			p.Elem().Set(fillLeaf(g))
			pl.Index(i).Set(p)
		}
	}
	root.Field(11).Set(pl)
	root.Field(12).Set(reflect.MakeSlice(reflect.SliceOf(tMid), 0, 0))
	root.Field(13).SetString("digraph")
	if g.r.chance(50) {
		p := reflect.New(tRoot)
		p.Elem().Set(root)
		doc = p.Interface()
	} else {
		doc = root.Interface()
	}
	js, _ := json.Marshal(doc)
	json.Unmarshal(js, &generic)
	if aliased {
		// length() must agree with the generic document (the property says so); the others must not panic
		for _, e := range []string{"[length(Nums), length(Lists[0]), length(Nums)]", "[length(Lists[0]), length(Nums)]", "Lists[*].length(@)"} {
			exprs = append(exprs, typedExpr{typed: e, generic: e, cmp: true})
		}
	}
	// conditions that are TRUE for a nil pointer element, with a right-hand side that does not map null to null
	for _, e := range []string{"PKids[?!@].type(@)", "PKids[?!Label].not_null(Label, 'none')", "PLeafs[?!@].type(@)", "PLeafs[?!Name].not_null(Name, `1`)", "PKids[?@ == `null`] | length(@)", "PLeafs[?!@] | length(@)", "PKids[?!Leaf].type(Leaf)"} {
		if g.r.chance(25) {
			exprs = append(exprs, typedExpr{typed: e, generic: e, cmp: true})
		}
	}
	if aliased {
		for _, e := range []string{"[reverse(Lists[0]), reverse(Nums)]", "[sum(Nums), sum(Lists[0])]"} {
			exprs = append(exprs, typedExpr{typed: e, generic: e})
		}
	}
	// two fixed navigations per case: a typed slice walked INSIDE the walk of another typed slice (projection in
	// the right-hand side or condition of a projection), and the empty / odd field names
	for i := 0; i < 2; i++ {
		e := g.r.pick([]string{"Kids[*].Leafs[*].Name", "Kids[*].Tags[*]", "PKids[*].Leafs[*].Val", "Kids[?Leafs[?Ok]].Label", "Kids[?Tags[?@ == 't']].Id", "Kids[*].Leafs[?Ok].Name",
			"Kids[:3].Leafs[::-1].Name", "Kids[::-1].Tags[:2]", "Lists[*][*]", "Lists[*][::-1]", "Kids[].Leafs[].Name", "Kids[*].Leafs[*].[Name, Val]", "PKids[*].Tags[*] | [0]",
			"Kids[*].[Leafs[*].Name, Tags[*]]", "Kids[?Leafs[0].Ok].Leafs[*].Name", "[Kids[*].Tags[*], Kids[*].Leafs[*].Ok]", "Kids[*].Leafs[*].Name | [1]",
			"[Lists][]", "[Lists, Nums][]", "[Lists][] | length(@)", "[Lists, Lists][][]", "[Kids[*].Tags, Lists][]", "[[Lists]][][]", "Kids[*].[Tags][]",
			"Nums[1::9223372036854775807]", "Kids[1::9223372036854775807].Label", "Strs[-1::9223372036854775807]", "Nums[::-9223372036854775808]", "Nums[1:3:9223372036854775806]",
			"PKids[2::9223372036854775807]", "Lists[*][1::9223372036854775807]", "Nums[-9223372036854775808:9223372036854775807:9223372036854775807]", "Kids[:-9223372036854775808:-1].Id",
			"Nums[9223372036854775807]", "Nums[-9223372036854775808]", "Kids[-9223372036854775808].Label",
			"\"\"", "Inner.\"\"", "Kids[*].\"\"", "Leaf.\"\"", "\"\" || Title", "{a: \"\", b: Title}", "\" \"", "Inner.\"\\u0000\"", "\"title \"", "Kids[0].\"\".Name"})
		exprs = append(exprs, typedExpr{typed: e, generic: e, nav: true})
	}
	// a field whose first letter has different upper-case and title-case forms (ǆ / ǅ / Ǆ): the library upper-cases
	if g.r.chance(30) {
		lowerOrTitle := g.r.pick([]string{"ǆ", "ǅ", "Ǆ"})
		form := g.r.pick([]string{"%s", "[%s, Title]", "%s || Title", "{a: %s}", "Kids[*].[%s]", "[%s][0]"})
		exprs = append(exprs, typedExpr{typed: strings.Replace(form, "%s", "\""+lowerOrTitle+"ep\"", -1), generic: strings.Replace(form, "%s", "\"Ǆep\"", -1), nav: true})
	}
	// six members of the product (context × typed path) per case, walking the whole product as idx grows
	for i := 0; i < 6; i++ {
		k := (idx*6 + i) % (len(typedOuter) * len(typedInner))
		e := strings.Replace(typedOuter[k/len(typedInner)], "%s", typedInner[k%len(typedInner)], -1)
		exprs = append(exprs, typedExpr{typed: e, generic: e, nav: true})
	}
	ne := 3 + g.r.intn(4)
	for i := 0; i < ne; i++ {
		if g.r.chance(70) {
			t := g.nav(generic, 2+g.r.intn(3))
			exprs = append(exprs, typedExpr{typed: spell(g, t, true), generic: spell(g, t, false), nav: true})
		} else {
			e := g.typedCall(generic)
			exprs = append(exprs, typedExpr{typed: e, generic: e})
		}
	}
	return
}

// field tokens are marked with a leading \x01
func spell(g *gen, t toks, lower bool) string {
	out := make(toks, len(t))
	for i, x := range t {
		if strings.HasPrefix(x, "\x01") {
			name := x[1:]
			if lower && len(name)%2 == 0 {
				r, n := utf8.DecodeRuneInString(name)
				name = string(unicode.ToLower(r)) + name[n:]
			}
			if unquotedRe.MatchString(name) {
				out[i] = name
			} else {
				out[i] = jsonText(name)
			}
		} else {
			out[i] = x
		}
	}
	return render(out, 1, g.r)
}

func isScalar(v interface{}) bool {
	switch v.(type) {
	case nil, bool, float64, string:
		return true
	}
	return false
}

func (g *gen) navField(cur interface{}) string {
	if m, ok := cur.(map[string]interface{}); ok && len(m) > 0 && g.r.chance(90) {
		ks := sortedKeys(m)
		return "\x01" + ks[g.r.intn(len(ks))]
	}
	return "\x01" + g.r.pick([]string{"Name", "Missing", "Id", "Kids", "Leaf", "Tags"})
}

func (g *gen) navCond(el interface{}, depth int) toks {
	m, _ := el.(map[string]interface{})
	var scal []string
	for _, k := range sortedKeys(m) {
		if isScalar(m[k]) {
			scal = append(scal, k)
		}
	}
	switch {
	case len(scal) > 0 && g.r.chance(60):
		k := scal[g.r.intn(len(scal))]
		v := m[k]
		if g.r.chance(30) {
			v = g.r.pick([]string{"a", "x", ""})
		}
		return toks{"\x01" + k, g.r.pick([]string{"==", "!=", "<", ">=", ">", "<="}), literalTok(v)}
	case isScalar(el) && g.r.chance(70):
		return toks{"@", g.r.pick([]string{"==", "!=", "<", ">=", ">"}), literalTok(g.r.pick([]string{"a", "", "t"}))}
	case isScalar(el):
		return toks{"@", g.r.pick([]string{"<", ">=", ">", "=="}), literalTok(float64(g.r.intn(4)))}
	case g.r.chance(50):
		return append(toks{"!"}, g.navField(el))
	default:
		return toks{g.navField(el)}
	}
}

// nav: a navigational expression over the generic form.
func (g *gen) nav(cur interface{}, depth int) toks {
	if depth <= 0 {
		switch cur.(type) {
		case map[string]interface{}:
			return toks{g.navField(cur)}
		case []interface{}:
			return toks{"[", g.intTok(len(cur.([]interface{}))), "]"}
		}
		return toks{"@"}
	}
	step := func(t toks) (interface{}, bool) {
		s := spell(g, t, false)
		return evalSafe(s, cur)
	}
	switch v := cur.(type) {
	case map[string]interface{}:
		switch k := g.r.intn(100); {
		case k < 55:
			t := toks{g.navField(cur)}
			nv, ok := step(t)
			if !ok || g.r.chance(15) {
				return t
			}
			rest := g.navSuffix(nv, depth-1)
			return append(t, rest...)
		case k < 65:
			return append(append(toks{"["}, g.nav(cur, depth-1)...), append(toks{","}, append(g.nav(cur, depth-1), "]")...)...)
		case k < 72:
			return append(append(toks{"{", "k", ":"}, g.nav(cur, depth-1)...), "}")
		case k < 80:
			return append(append(toks{g.navField(cur)}, g.r.pick([]string{"||", "&&"})), paren(g.nav(cur, depth-1))...)
		case k < 85:
			return toks{"!", g.navField(cur)}
		default:
			t := toks{g.navField(cur)}
			nv, _ := step(t)
			return append(append(t, "|"), g.nav(nv, depth-1)...)
		}
	case []interface{}:
		return append(toks{"@"}, g.navSuffix(v, depth)...)
	case string:
		if g.r.chance(50) {
			return toks{"length(", "@", ")"}
		}
	}
	return toks{"@"}
}

func (g *gen) navSuffix(cur interface{}, depth int) toks {
	if depth <= 0 {
		return nil
	}
	switch v := cur.(type) {
	case map[string]interface{}:
		f := g.navField(cur)
		nv := v[f[1:]]
		return append(toks{".", f}, g.navSuffix(nv, depth-1)...)
	case []interface{}:
		el := sample(g.r, v)
		switch k := g.r.intn(100); {
		case k < 25:
			i := g.intTok(len(v))
			var nv interface{}
			if n, err := strconv.Atoi(i); err == nil {
				if n < 0 {
					n += len(v)
				}
				if n >= 0 && n < len(v) {
					nv = v[n]
				}
			}
			return append(toks{"[", i, "]"}, g.navSuffix(nv, depth-1)...)
		case k < 40:
			return append(g.sliceToks(len(v)), g.navRHS(el, depth-1)...)
		case k < 60:
			return append(toks{"[", "*", "]"}, g.navRHS(el, depth-1)...)
		case k < 72:
			var inner interface{} = el
			if ea, ok := el.([]interface{}); ok {
				inner = sample(g.r, ea)
			}
			return append(toks{"[]"}, g.navRHS(inner, depth-1)...)
		case k < 90:
			t := append(toks{"[?"}, g.navCond(el, depth-1)...)
			return append(append(t, "]"), g.navRHS(el, depth-1)...)
		default:
			return toks{"|", "length(", "@", ")"}
		}
	}
	return nil
}

func (g *gen) navRHS(el interface{}, depth int) toks {
	if depth <= 0 || g.r.chance(30) {
		return nil
	}
	switch v := el.(type) {
	case map[string]interface{}:
		f := g.navField(el)
		return append(toks{".", f}, g.navRHS(v[f[1:]], depth-1)...)
	case []interface{}:
		if g.r.chance(50) {
			return toks{"[", g.intTok(len(v)), "]"}
		}
		return append(toks{"[]"}, g.navRHS(sample(g.r, v), depth-1)...)
	}
	return nil
}

// typedCall: a built-in function applied to typed values (judged by "no panic").
func (g *gen) typedCall(generic interface{}) string {
	sig := fnSigs[g.r.intn(len(fnSigs))]
	paths := []string{"Kids", "PKids", "Nums", "Lists", "Strs", "PLeafs", "Empty", "Inner", "Leaf", "NilLeaf", "Inner.Tags", "Kids[0]", "PKids[0]", "Title", "Count", "Kids[0].Tags", "@", "Lists[0]", "Inner.Leaf"}
	refs := []string{"&Id", "&Label", "&Name", "&Val", "&@", "&Leaf", "&Tags", "&length(Tags)", "&Leaf.Val"}
	n := len(sig.params)
	if sig.varia {
		n = 1 + g.r.intn(3)
	}
	args := make([]string, n)
	for i := range args {
		want := sig.params[len(sig.params)-1]
		if i < len(sig.params) {
			want = sig.params[i]
		}
		switch {
		case want == "expref":
			args[i] = g.r.pick(refs)
		case g.r.chance(85):
			args[i] = g.r.pick(paths)
		default:
			args[i] = literalTok(g.value(1))
		}
	}
	e := sig.name + "(" + strings.Join(args, ", ") + ")"
	switch g.r.intn(5) {
	case 0:
		e = "Kids[*]." + sig.name + "(" + strings.Replace(strings.Join(args, ", "), "Kids", "Tags", -1) + ")"
	case 1:
		e = e + " | [@, @]"
	}
	return e
}

// searchJSONForm: the outcome of a search with a successful result re-rendered through its JSON form (typed Go
// values in the result become what encoding/json writes for them).
func searchJSONForm(expr string, doc interface{}) string {
	var r interface{}
	var err error
	if p, _ := safely(func() { r, err = jmespath.Search(expr, doc) }); p {
		return "panic"
	}
	if err != nil {
		return errBase(err)
	}
	js, merr := json.Marshal(r)
	var back interface{}
	if merr != nil || json.Unmarshal(js, &back) != nil {
		return "unmarshalable"
	}
	return "ok " + jmespath.VerifCanon(back)
}

// doTyped: answer for "TY <seed> <idx>".
func doTyped(seedS, idxS string) outcome {
	seed, _ := strconv.ParseUint(seedS, 10, 64)
	idx, _ := strconv.Atoi(idxS)
	_, doc, gdoc, exprs := typedCase(seed, idx)
	var o outcome
	var parts []string
	for _, e := range exprs {
		var r interface{}
		var err error
		p, _ := safely(func() { r, err = jmespath.Search(e.typed, doc) })
		if p {
			o.flags = append(o.flags, "typedpanic:"+hexField(e.typed))
			parts = append(parts, "panic")
			continue
		}
		// the same typed document INSIDE a generic map, through the one-shot and the compiled path (twice): all three
		// must agree with each other (a fast path of one route that knows only generic maps shows up here)
		if e.nav || e.cmp {
			wrapped := map[string]interface{}{"w": doc, "z": 1.0}
			// ONE compiled expression on documents of different struct types in turn (a per-expression memo of where a
			// field was found last must not outlive the type it was found in)
			if jpT, cerr := jmespath.Compile("Title"); cerr == nil {
				seq := []interface{}{doc, &EmbDoc{Title: "emb"}, EmbTiny{Title: "tiny"}, doc, &EmbTiny{Title: "t2"}, EmbDoc{Title: "e2"}}
				for _, sd := range seq {
					var r1, r2 interface{}
					var e1, e2 error
					p1, _ := safely(func() { r1, e1 = jpT.Search(sd) })
					p2, _ := safely(func() { r2, e2 = jmespath.Search("Title", sd) })
					if searchBase(r1, e1, p1) != searchBase(r2, e2, p2) {
						o.flags = append(o.flags, "typedreuse:"+truncate(searchBase(r1, e1, p1), 60)+":oneshot="+truncate(searchBase(r2, e2, p2), 60))
						break
					}
				}
			}
			// typed slices as VALUES of a generic map (not struct fields): index, slice, projections, filter, flatten and
			// the pipe law on them
			if rv := reflect.Indirect(reflect.ValueOf(doc)); rv.Kind() == reflect.Struct && rv.Type() == tRoot {
				inMap := map[string]interface{}{"tags": rv.Field(8).Interface(), "nums": rv.Field(6).Interface(), "kids": rv.Field(2).Interface()}
				var gen interface{}
				js, _ := json.Marshal(inMap)
				json.Unmarshal(js, &gen)
				for _, pe := range [][2]string{{"tags", "[0]"}, {"tags", "[-1]"}, {"nums", "[1:]"}, {"tags", "[*]"}, {"nums", "[?@ > `0`]"}, {"kids", "[*].Label"}, {"kids", "[0].Tags"}, {"[tags, nums]", "[]"}, {"tags", "length(@)"}} {
					whole := searchJSONForm(pe[0]+" | "+pe[1], inMap)
					want, _, _ := searchOutcome(pe[0]+" | "+pe[1], gen)
					if whole != want {
						o.flags = append(o.flags, "typedinmap:"+hexField(pe[0]+" | "+pe[1])+":want="+truncate(want, 100)+":got="+truncate(whole, 100))
					}
				}
			}
			// a nil pointer of the document's type as a VALUE of a generic map / list: null for every navigation
			nilp := reflect.Zero(reflect.PtrTo(tRoot)).Interface()
			withNil := map[string]interface{}{"nilp": nilp, "l": []interface{}{nilp, 1.0}}
			for _, ne := range []string{"nilp.Title", "nilp.Kids[0]", "l[0].Title", "l[*].Title", "nilp.Title || 'd'", "[nilp.Count, l[1]]"} {
				var rn interface{}
				var en error
				if pn, _ := safely(func() { rn, en = jmespath.Search(ne, withNil) }); pn {
					o.flags = append(o.flags, "typedpanic:"+hexField(ne))
				} else if en == nil && ne == "nilp.Title" && rn != nil {
					o.flags = append(o.flags, "typednil:"+hexField(ne))
				}
			}
			we := "w | " + e.typed
			if strings.HasPrefix(e.typed, "\"") || (len(e.typed) > 0 && (e.typed[0] >= 'A' && e.typed[0] <= 'Z' || e.typed[0] >= 'a' && e.typed[0] <= 'z')) {
				we = "w." + e.typed
			}
			one, _, _ := searchOutcome(we, wrapped)
			var jp *jmespath.JMESPath
			var cerr error
			if cp, _ := safely(func() { jp, cerr = jmespath.Compile(we) }); !cp && cerr == nil && jp != nil {
				for k := 0; k < 2; k++ {
					var r2 interface{}
					var e2 error
					p2, _ := safely(func() { r2, e2 = jp.Search(wrapped) })
					if got := searchBase(r2, e2, p2); got != one && !strings.Contains(e.typed, "*") {
						o.flags = append(o.flags, "typedcompiled:"+hexField(we)+":oneshot="+truncate(one, 120)+":compiled="+truncate(got, 120))
						break
					}
				}
			}
		}
		if !e.nav && !e.cmp {
			parts = append(parts, "nopanic")
			continue
		}
		want, _, _ := searchOutcome(e.generic, gdoc)
		got := "err"
		if err == nil {
			js, merr := json.Marshal(r)
			var back interface{}
			if merr == nil && json.Unmarshal(js, &back) == nil {
				got = "ok " + jmespath.VerifCanon(back)
			} else {
				got = "unmarshalable"
			}
		} else if strings.HasPrefix(want, "errsyn") {
			got = errBase(err)
		}
		parts = append(parts, got)
		if got != want {
			o.flags = append(o.flags, "typeddiff:"+hexField(e.typed)+":want="+truncate(want, 200)+":got="+truncate(got, 200))
		}
	}
	o.base = strings.Join(parts, ";")
	return o
}

// typedCanon: the canonical text of a typed document for the Lean typed model:
// S{name:v,...} struct (exported fields in declaration order), P0 / P<v>
// pointer, L[...] typed slice, generic values as in VerifCanon.
func typedCanon(v reflect.Value) string {
	if !v.IsValid() {
		return "null"
	}
	switch v.Kind() {
	case reflect.Interface:
		if v.IsNil() {
			return "null"
		}
		return typedCanon(v.Elem())
	case reflect.Ptr:
		if v.IsNil() {
			return "P0"
		}
		return "P" + typedCanon(v.Elem())
	case reflect.Struct:
		var parts []string
		for i := 0; i < v.NumField(); i++ {
			f := v.Type().Field(i)
			if f.PkgPath != "" {
				continue
			}
			parts = append(parts, "s"+hexOfString(f.Name)+":"+typedCanon(v.Field(i)))
		}
		return "S{" + strings.Join(parts, ",") + "}"
	case reflect.Slice:
		if v.Type() == reflect.TypeOf([]interface{}{}) {
			return jmespath.VerifCanon(v.Interface())
		}
		parts := make([]string, v.Len())
		for i := range parts {
			parts[i] = typedCanon(v.Index(i))
		}
		return "L[" + strings.Join(parts, ",") + "]"
	case reflect.Map:
		return jmespath.VerifCanon(v.Interface())
	}
	return jmespath.VerifCanon(v.Interface())
}

func hexOfString(s string) string {
	const hexd = "0123456789abcdef"
	b := make([]byte, 0, 2*len(s))
	for i := 0; i < len(s); i++ {
		b = append(b, hexd[s[i]>>4], hexd[s[i]&15])
	}
	return string(b)
}

// doTypedModel: answer for "ST <seed> <idx> <k> <hexexpr> <typedcanon>": the
// implementation on the regenerated typed document, result shown through its JSON form.
func doTypedModel(seedS, idxS, kS, hexExpr, canon string) outcome {
	seed, _ := strconv.ParseUint(seedS, 10, 64)
	idx, _ := strconv.Atoi(idxS)
	k, _ := strconv.Atoi(kS)
	_, doc, _, exprs := typedCase(seed, idx)
	var o outcome
	if k < 0 || k >= len(exprs) {
		o.base = "bad-request"
		return o
	}
	e := exprs[k]
	if hexField(e.typed) != hexExpr || typedCanon(reflect.ValueOf(doc)) != canon {
		o.base = "bad-request"
		return o
	}
	var r interface{}
	var err error
	p, _ := safely(func() { r, err = jmespath.Search(e.typed, doc) })
	if p {
		o.base = "panic"
		return o
	}
	if err != nil {
		o.base = errBase(err)
		return o
	}
	js, merr := json.Marshal(r)
	var back interface{}
	if merr != nil || json.Unmarshal(js, &back) != nil {
		o.base = "unmarshalable"
		return o
	}
	o.base = "ok " + jmespath.VerifCanon(back)
	return o
}
