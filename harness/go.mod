module verifharness

go 1.14

require github.com/jmespath/go-jmespath v0.0.0

replace github.com/jmespath/go-jmespath => /repo
